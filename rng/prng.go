// Package rng is the harness PRNG: every choice of a run derives from it.
package rng

// Own PRNG (SplitMix64 seeding + xoshiro256**), so that a seed means the same
// run whatever Go version or math/rand implementation is installed.

type Rng struct{ s [4]uint64 }

func splitmix(x *uint64) uint64 {
	*x += 0x9e3779b97f4a7c15
	z := *x
	z = (z ^ (z >> 30)) * 0xbf58476d1ce4e5b9
	z = (z ^ (z >> 27)) * 0x94d049bb133111eb
	return z ^ (z >> 31)
}

// NewRng derives the generator of run `index` of seed `seed`.
func NewRng(seed uint64, index uint64) *Rng {
	x := seed ^ (index * 0xd1342543de82ef95) ^ 0x5851f42d4c957f2d
	x = splitmix(&x) ^ index
	r := &Rng{}
	for i := range r.s {
		r.s[i] = splitmix(&x)
	}
	return r
}

func rotl(x uint64, k uint) uint64 { return (x << k) | (x >> (64 - k)) }

func (r *Rng) U64() uint64 {
	s := &r.s
	res := rotl(s[1]*5, 7) * 9
	t := s[1] << 17
	s[2] ^= s[0]
	s[3] ^= s[1]
	s[1] ^= s[2]
	s[0] ^= s[3]
	s[2] ^= t
	s[3] = rotl(s[3], 45)
	return res
}

// Intn returns a value in [0,n). n<=0 gives 0.
func (r *Rng) Intn(n int) int {
	if n <= 1 {
		return 0
	}
	return int(r.U64() % uint64(n))
}

// Range returns a value in [lo,hi].
func (r *Rng) Range(lo, hi int) int {
	if hi <= lo {
		return lo
	}
	return lo + r.Intn(hi-lo+1)
}

// Chance is true with probability num/den.
func (r *Rng) Chance(num, den int) bool { return r.Intn(den) < num }

func (r *Rng) Pick(ss []string) string { return ss[r.Intn(len(ss))] }

func (r *Rng) Byte() byte { return byte(r.U64()) }

// Fork gives an independent stream (used so that adding a draw in one
// generator does not shift every later choice of the run).
func (r *Rng) Fork() *Rng {
	x := r.U64()
	n := &Rng{}
	for i := range n.s {
		n.s[i] = splitmix(&x)
	}
	return n
}

// PickInt returns one of its arguments.
func (r *Rng) PickInt(xs ...int) int { return xs[r.Intn(len(xs))] }
