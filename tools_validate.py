import json,sys,glob,jsonschema
m=json.load(open('/verif/MANIFEST.json')); s=json.load(open('/root/.vp/MANIFEST.schema.json'))
jsonschema.validate(m,s); print("manifest valid")
es=json.load(open('/root/.vp/EVIDENCE.schema.json'))
for f in sorted(glob.glob('/verif/evidence/*.json')):
    e=json.load(open(f)); jsonschema.validate(e,es)
    c=e['coverage']; print(f.split('/')[-1], e['tier'], 'evals',c['evaluations'],'distinct',c['distinct_nontrivial'],'wall',round(e['wall_s'],1),'viol',e.get('violations'))
