// simcheck decides one property by seeded deterministic simulation.
//
//	simcheck -prop C01 -tier quick            run the check (VERIF_SEED honoured)
//	simcheck -replay out/replay-....json      re-execute a replay file in this process
//
// Exit codes: 0 property held on everything explored; 1 violation (a line
// "VIOLATION property=<id> replay=<path>" is printed); 2 infrastructure trouble.
package main

import (
	"encoding/json"
	"flag"
	"fmt"
	"io/ioutil"
	"os"
	"os/exec"
	"path/filepath"
	"runtime"
	"runtime/debug"
	"runtime/pprof"
	"sort"
	"strconv"
	"strings"
	"time"

	"github.com/intuitivelabs/sipsp"
	"github.com/intuitivelabs/slog"

	"verif/gen"
	"verif/sim"
)

const defaultSeed = 20261002

type budget struct {
	runs  int // per seed
	seeds int
	secs  float64
}

// Fixed run counts (results are a function of the seed, not of machine
// speed); the wall-clock cap only bites on a much slower machine.
var budgets = map[string]map[string]budget{
	"quick": {
		"C01": {250000, 1, 150}, "C02": {600000, 1, 150}, "C03": {100000, 1, 150}, "C04": {600000, 1, 150},
		"C05": {300000, 1, 150}, "C06": {200000, 1, 150}, "C10": {600000, 1, 150}, "C11": {400000, 1, 150},
		"C12": {250000, 1, 150}, "C13": {500000, 1, 150}, "C19": {150000, 1, 150},
	},
	"thorough": {
		"C01": {2500000, 4, 1500}, "C02": {6000000, 4, 1500}, "C03": {900000, 4, 1500}, "C04": {6000000, 4, 1500},
		"C05": {3000000, 4, 1500}, "C06": {2000000, 4, 1500}, "C10": {6000000, 4, 1500}, "C11": {4000000, 4, 1500},
		"C12": {1500000, 4, 1500}, "C13": {5000000, 4, 1500}, "C19": {1500000, 4, 1500},
	},
}

func main() {
	prop := flag.String("prop", "", "property id (C01..)")
	tier := flag.String("tier", "quick", "quick | thorough")
	replay := flag.String("replay", "", "replay file to re-execute")
	runs := flag.Int("runs", 0, "override runs per seed")
	nseeds := flag.Int("seeds", 0, "override number of derived seeds")
	secs := flag.Float64("secs", 0, "override wall-clock cap")
	mode := flag.String("mode", "calls", "C04 task interleaving: calls | yield | race")
	evPath := flag.String("evidence", "", "evidence file to write (default evidence/<prop>.json)")
	outDir := flag.String("out", "out", "directory for replay files")
	knownPath := flag.String("known", "known_findings.json", "known-findings file (read only)")
	workers := flag.Int("workers", 0, "worker goroutines (default: all cores)")
	noEvidence := flag.Bool("no-evidence", false, "do not write an evidence file (sub-passes, self-tests)")
	dump := flag.String("dump", "", "print the scenario of seed:index and exit")
	eventlog := flag.Bool("eventlog", false, "print a hash of every run's outcome (determinism self-test)")
	cpuprof := flag.String("cpuprofile", "", "write a CPU profile")
	child := flag.String("child", "", "internal: run as child k/n")
	childOut := flag.String("child-out", "", "internal: where the child writes its result")
	stopFile := flag.String("stop-file", "", "internal: stop marker shared by the children")
	tasksOnly := flag.Bool("tasks-only", false, "C04: multi-task worlds only (isolation passes)")
	embed := flag.String("embed", "", "comma separated evidence files of sub-passes to embed under coverage.sub_passes")
	flag.Parse()
	debug.SetGCPercent(400)
	if *cpuprof != "" {
		f, _ := os.Create(*cpuprof)
		pprof.StartCPUProfile(f)
		defer pprof.StopCPUProfile()
	}

	checkConstants()
	// the library logs BUG()/DBG() lines to stderr (e.g. for out-of-range header types handed to
	// GetHdrSigId); mute its exported logger, the messages are not observations of any property
	slog.SetOutput(&sipsp.Log, slog.LDisabledOut)
	sim.C04TasksOnly = *tasksOnly
	embedFiles = *embed

	switch *mode {
	case "calls":
		sim.TaskMode = sim.ModeCalls
	case "yield":
		sim.TaskMode = sim.ModeYield
	case "race":
		sim.TaskMode = sim.ModeRace
	default:
		fatal("unknown -mode %q", *mode)
	}

	if *replay != "" {
		os.Exit(doReplay(*replay))
	}
	if *prop == "" {
		fatal("need -prop or -replay")
	}
	seed := uint64(defaultSeed)
	if s := os.Getenv("VERIF_SEED"); s != "" {
		v, err := strconv.ParseUint(s, 10, 64)
		if err != nil {
			if iv, e2 := strconv.ParseInt(s, 10, 64); e2 == nil {
				v = uint64(iv)
			} else {
				fatal("VERIF_SEED=%q is not an integer", s)
			}
		}
		seed = v
	}
	if t := os.Getenv("VERIF_TIER"); t != "" && !flagSet("tier") {
		*tier = t
	}
	bt, ok := budgets[*tier]
	if !ok {
		fatal("unknown tier %q", *tier)
	}
	b, ok := bt[*prop]
	if !ok {
		fatal("property %q has no simulation check (not applicable or unknown)", *prop)
	}
	if *runs > 0 {
		b.runs = *runs
	}
	if *nseeds > 0 {
		b.seeds = *nseeds
	}
	if *secs > 0 {
		b.secs = *secs
	}
	if *dump != "" {
		parts := strings.Split(*dump, ":")
		s, _ := strconv.ParseUint(parts[0], 10, 64)
		i, _ := strconv.ParseUint(parts[1], 10, 64)
		sc := sim.Build(*prop, s, i, *tier)
		o, _ := json.MarshalIndent(sc, "", " ")
		fmt.Println(string(o))
		return
	}
	var seeds []uint64
	for i := 0; i < b.seeds; i++ {
		seeds = append(seeds, seed+uint64(i)*1000003)
	}
	knownFile = *knownPath
	known, err := sim.LoadKnown(*knownPath)
	if err != nil && !os.IsNotExist(err) {
		fatal("known findings: %v", err)
	}
	fmt.Printf("simcheck property=%s tier=%s VERIF_SEED=%d seeds=%v runs/seed=%d workers=%d mode=%s\n", *prop, *tier, seed, seeds, b.runs, pick(*workers, runtime.NumCPU()), *mode)

	if *eventlog {
		eventLog(*prop, *tier, seeds, b.runs)
		return
	}

	rc := sim.RunCfg{Prop: *prop, Tier: *tier, Seeds: seeds, RunsPer: b.runs, MaxSeconds: b.secs, Known: known}
	if *child != "" {
		// child process: run my share of the indices, report to the parent, exit
		var k, n int
		fmt.Sscanf(*child, "%d/%d", &k, &n)
		rc.Offset, rc.Stride, rc.StopFile = k, n, *stopFile
		r := sim.Run(rc)
		cr := sim.ChildResult{Stats: r.Stats.Wire(), Found: r.Found, KnownHits: r.KnownHits, KnownEx: r.KnownEx, Wall: r.Wall, TimedOut: r.TimedOut, Stalled: r.Stalled}
		out, _ := json.Marshal(&cr)
		if err := ioutil.WriteFile(*childOut, out, 0644); err != nil {
			fatal("child: %v", err)
		}
		return
	}
	res := runChildren(rc, pick(*workers, runtime.NumCPU()), *mode, *tasksOnly)

	if res.Stalled != "" {
		// a world did not finish: re-run it alone in a fresh process with a limit before blaming the library
		var sd, ix uint64
		fmt.Sscanf(res.Stalled, "%d:%d", &sd, &ix)
		sc := sim.Build(*prop, sd, ix, *tier)
		os.MkdirAll(*outDir, 0755)
		rp := filepath.Join(*outDir, fmt.Sprintf("replay-%s-C04-hang-%d-%d.json", *prop, sd, ix))
		if abs, err := filepath.Abs(rp); err == nil {
			rp = abs
		}
		sim.WriteReplay(rp, &sim.Replay{Property: "C04", Monitor: "non-termination", Key: "C04/non-termination", Seed: sd, Index: ix, Scenario: sc,
			Detail: "the world did not finish within the step budget (a library call does not return)"})
		self, _ := os.Executable()
		out, _ := exec.Command(self, "-replay", rp, "-mode", *mode).CombinedOutput()
		if strings.Contains(string(out), "REPRODUCED key=C04/non-termination") {
			fmt.Printf("violation found: seed=%d index=%d property=C04 monitor=non-termination: a library call does not return\n", sd, ix)
			fmt.Printf("VIOLATION property=C04 replay=%s\n", rp)
			writeEvidence(*prop, *tier, seed, seeds, res, *evPath, *noEvidence, *mode, 1, "C04")
			os.Exit(1)
		}
		fmt.Printf("WATCHDOG: world %s made no progress for %d s but finishes when run alone: infrastructure trouble\n%s\n", res.Stalled, sim.StallSeconds, out)
		os.Exit(2)
	}
	for _, id := range sortedKeys(res.KnownHits) {
		k := findKnown(known, id)
		fmt.Printf("KNOWN-FINDING: property=%s %s [%s, %d runs hit it, e.g. %s]\n", k.Property, k.What, id, res.KnownHits[id], res.KnownEx[id])
	}
	violations := 0
	exit := 0
	var replayPath string
	if res.Found != nil {
		violations = 1
		exit = 1
		f := res.Found
		fmt.Printf("violation found: seed=%d index=%d %s\n", f.Seed, f.Index, f.V)
		mon := sim.MonitorsFor(*prop)
		min, steps := sim.Minimise(f.Sc, mon, f.V.Key(), 4000)
		mv := sim.Exec(min, mon, nil)
		if mv == nil || mv.Key() != f.V.Key() {
			min, mv, steps = f.Sc, f.V, 0
		}
		os.MkdirAll(*outDir, 0755)
		replayPath = filepath.Join(*outDir, fmt.Sprintf("replay-%s-%s-%d-%d.json", *prop, mv.Prop, f.Seed, f.Index))
		if abs, err := filepath.Abs(replayPath); err == nil {
			replayPath = abs
		}
		rp := &sim.Replay{Property: mv.Prop, Monitor: mv.Monitor, Detail: mv.Detail, Key: mv.Key(), Seed: f.Seed, Index: f.Index, Minimised: steps > 0, ShrinkSteps: steps, Scenario: min}
		if err := sim.WriteReplay(replayPath, rp); err != nil {
			fatal("write replay: %v", err)
		}
		fmt.Printf("minimised in %d steps: %s\n", steps, mv)
		// the replay must reproduce in a fresh process before it is reported
		self, _ := os.Executable()
		cmd := exec.Command(self, "-replay", replayPath, "-mode", *mode)
		out, _ := cmd.CombinedOutput()
		want := fmt.Sprintf("REPRODUCED key=%s", mv.Key())
		if !strings.Contains(string(out), want) {
			// Not reproducible from the scenario alone. Worlds are independent by construction, so
			// the only way the worlds executed before it in the same process can matter is state
			// the library keeps at package level: try the world together with its predecessors.
			ok := false
			for k := 1; k <= 512 && !ok; k *= 2 {
				var pre []*sim.Scenario
				for j := k; j >= 1; j-- {
					m := int64(f.N) - int64(j)*int64(f.Stride)
					if m < 0 {
						continue
					}
					pre = append(pre, sim.Build(*prop, seeds[uint64(m)/uint64(b.runs)], uint64(m)%uint64(b.runs), *tier))
				}
				if len(pre) == 0 {
					break
				}
				rp2 := &sim.Replay{Property: "C04", Monitor: "cross-world-influence", Key: "C04/cross-world-influence", Seed: f.Seed, Index: f.Index, Scenario: f.Sc, Prelude: pre,
					Detail: fmt.Sprintf("world fails only after the %d worlds the same process ran before it (alone it passes): independent parses influence one another through package-level state. Failure: %s", len(pre), f.V)}
				if err := sim.WriteReplay(replayPath, rp2); err != nil {
					fatal("write replay: %v", err)
				}
				out2, _ := exec.Command(self, "-replay", replayPath, "-mode", *mode).CombinedOutput()
				if strings.Contains(string(out2), "REPRODUCED key=C04/cross-world-influence") {
					ok = true
					fmt.Printf("not reproducible alone; reproducible after its %d predecessor worlds: %s\n", len(pre), rp2.Detail)
				}
			}
			if !ok {
				fmt.Printf("INFRASTRUCTURE: replay file %s did not reproduce %q in a fresh process (nor with up to 512 predecessor worlds):\n%s\n", replayPath, want, out)
				writeEvidence(*prop, *tier, seed, seeds, res, *evPath, *noEvidence, *mode, violations, mv.Prop)
				os.Exit(2)
			}
			fmt.Printf("VIOLATION property=C04 replay=%s\n", replayPath)
			writeEvidence(*prop, *tier, seed, seeds, res, *evPath, *noEvidence, *mode, violations, "C04")
			os.Exit(1)
		}
		fmt.Printf("VIOLATION property=%s replay=%s\n", mv.Prop, replayPath)
	}
	writeEvidence(*prop, *tier, seed, seeds, res, *evPath, *noEvidence, *mode, violations, "")
	if res.TimedOut {
		fmt.Printf("note: wall-clock cap reached after %d runs (%.0f s)\n", res.Runs, res.Wall)
	}
	fmt.Printf("done: property=%s runs=%d calls=%d wall=%.1fs violations=%d known_finding_hits=%d\n", *prop, res.Runs, res.Stats.Calls, res.Wall, violations, sum(res.KnownHits))
	os.Exit(exit)
}

var embedFiles string

// runChildren spreads the runs over child processes (one world at a time per
// process) and merges what they report.
func runChildren(rc sim.RunCfg, n int, mode string, tasksOnly bool) *sim.RunResult {
	self, err := os.Executable()
	if err != nil {
		fatal("%v", err)
	}
	dir, err := ioutil.TempDir("", "simcheck-children")
	if err != nil {
		fatal("%v", err)
	}
	defer os.RemoveAll(dir)
	t0 := time.Now()
	stop := filepath.Join(dir, "stop")
	type ch struct {
		cmd *exec.Cmd
		out string
		buf *strings.Builder
	}
	var chs []ch
	for k := 0; k < n; k++ {
		out := filepath.Join(dir, fmt.Sprintf("child-%d.json", k))
		args := []string{"-prop", rc.Prop, "-tier", rc.Tier, "-runs", strconv.Itoa(rc.RunsPer), "-seeds", strconv.Itoa(len(rc.Seeds)),
			"-secs", fmt.Sprint(rc.MaxSeconds), "-mode", mode, "-child", fmt.Sprintf("%d/%d", k, n), "-child-out", out, "-stop-file", stop, "-known", knownFile}
		if tasksOnly {
			args = append(args, "-tasks-only")
		}
		c := exec.Command(self, args...)
		c.Env = append(os.Environ(), fmt.Sprintf("VERIF_SEED=%d", rc.Seeds[0]))
		sb := &strings.Builder{}
		c.Stdout, c.Stderr = sb, sb
		if err := c.Start(); err != nil {
			fatal("start child: %v", err)
		}
		chs = append(chs, ch{c, out, sb})
	}
	res := &sim.RunResult{Stats: sim.NewStats(), KnownHits: map[string]int64{}, KnownEx: map[string]string{}}
	var founds []*sim.Found
	for k, c := range chs {
		err := c.cmd.Wait()
		b, rerr := ioutil.ReadFile(c.out)
		if err != nil || rerr != nil {
			fmt.Printf("INFRASTRUCTURE: child %d failed (%v / %v):\n%s\n", k, err, rerr, tailStr(c.buf.String(), 3000))
			os.Exit(2)
		}
		var cr sim.ChildResult
		if err := json.Unmarshal(b, &cr); err != nil {
			fatal("child %d result: %v", k, err)
		}
		res.Stats.Merge(cr.Stats.Stats())
		for id, v := range cr.KnownHits {
			res.KnownHits[id] += v
			if _, ok := res.KnownEx[id]; !ok {
				res.KnownEx[id] = cr.KnownEx[id]
			}
		}
		if cr.Found != nil {
			founds = append(founds, cr.Found)
		}
		if cr.TimedOut {
			res.TimedOut = true
		}
		if cr.Stalled != "" && res.Stalled == "" {
			res.Stalled = cr.Stalled
		}
	}
	if len(founds) > 0 {
		pos := map[uint64]int{}
		for i, s := range rc.Seeds {
			pos[s] = i
		}
		sort.Slice(founds, func(i, j int) bool {
			if pos[founds[i].Seed] != pos[founds[j].Seed] {
				return pos[founds[i].Seed] < pos[founds[j].Seed]
			}
			return founds[i].Index < founds[j].Index
		})
		res.Found = founds[0]
	}
	res.Runs = res.Stats.Runs
	res.Wall = time.Since(t0).Seconds()
	return res
}

func tailStr(s string, n int) string {
	if len(s) > n {
		return s[len(s)-n:]
	}
	return s
}

var knownFile string

func pick(a, b int) int {
	if a > 0 {
		return a
	}
	return b
}

func flagSet(name string) bool {
	set := false
	flag.Visit(func(f *flag.Flag) {
		if f.Name == name {
			set = true
		}
	})
	return set
}

func sum(m map[string]int64) int64 {
	var s int64
	for _, v := range m {
		s += v
	}
	return s
}

func sortedKeys(m map[string]int64) []string {
	ks := make([]string, 0, len(m))
	for k := range m {
		ks = append(ks, k)
	}
	sort.Strings(ks)
	return ks
}

func findKnown(kf []sim.KnownFinding, id string) *sim.KnownFinding {
	for i := range kf {
		if kf[i].ID == id {
			return &kf[i]
		}
	}
	return &sim.KnownFinding{}
}

func fatal(f string, a ...interface{}) {
	fmt.Fprintf(os.Stderr, "simcheck: "+f+"\n", a...)
	os.Exit(2)
}

// checkConstants: the harness mirrors a few exported constants of the library
// (flag bits). If they drift the harness would silently test something else.
func checkConstants() {
	if sipsp.POptTokCommaTermF != gen.FCommaTerm || sipsp.POptTokQmTermF != gen.FQmTerm || sipsp.POptTokSpTermF != gen.FSpTerm ||
		sipsp.POptInputEndF != gen.FInputEnd || sipsp.POptParamSemiSepF != gen.FSemiSep || sipsp.POptParamAmpSepF != gen.FAmpSep ||
		sipsp.POptTokURIParamF != gen.FURIParam || sipsp.POptTokURIHdrF != gen.FURIHdr ||
		sipsp.SIPMsgSkipBodyF != 1 || sipsp.SIPMsgCLenReqF != 2 || sipsp.SIPMsgNoMoreDataF != 4 {
		fatal("exported flag constants of sipsp changed; harness flag tables need updating")
	}
}

func doReplay(path string) int {
	rp, err := sim.ReadReplay(path)
	if err != nil {
		fatal("read replay: %v", err)
	}
	mon := sim.MonitorsFor(rp.Scenario.Prop)
	if len(rp.Prelude) > 0 {
		// first alone (must pass), then after the predecessor worlds (must fail)
		if v := sim.Exec(rp.Scenario.Clone(), mon, nil); v != nil {
			fmt.Printf("replay %s: fails alone already: %s\n", path, v)
			fmt.Printf("VIOLATION property=%s replay=%s\n", v.Prop, path)
			return 1
		}
		for _, p := range rp.Prelude {
			func() {
				defer func() { recover() }()
				sim.Exec(p, sim.MonitorsFor(p.Prop), nil)
			}()
		}
		v := sim.Exec(rp.Scenario, mon, nil)
		if v == nil {
			fmt.Printf("replay %s: no violation after %d predecessor worlds\n", path, len(rp.Prelude))
			return 0
		}
		fmt.Printf("replay %s: passes alone, fails after %d predecessor worlds: %s\n", path, len(rp.Prelude), v)
		fmt.Printf("REPRODUCED key=C04/cross-world-influence\n")
		fmt.Printf("VIOLATION property=C04 replay=%s\n", path)
		return 1
	}
	var v *sim.Violation
	fin := make(chan struct{})
	go func() { v = sim.Exec(rp.Scenario, mon, nil); close(fin) }()
	select {
	case <-fin:
	// (alone and with a ten times more generous limit than the batch watchdog: only a world that really
	// does not finish is blamed on the library)
	case <-time.After(time.Duration(10*sim.StallSeconds) * time.Second):
		fmt.Printf("replay %s: the world does not finish within %d s\n", path, 10*sim.StallSeconds)
		if rp.Key == "C04/non-termination" {
			fmt.Printf("REPRODUCED key=C04/non-termination\n")
		}
		fmt.Printf("VIOLATION property=C04 replay=%s\n", path)
		return 1
	}
	if v == nil {
		fmt.Printf("replay %s: no violation (expected %s)\n", path, rp.Key)
		return 0
	}
	fmt.Printf("replay %s: %s\n", path, v)
	if v.Key() == rp.Key {
		fmt.Printf("REPRODUCED key=%s\n", v.Key())
	} else {
		fmt.Printf("DIFFERENT key=%s expected=%s\n", v.Key(), rp.Key)
	}
	fmt.Printf("VIOLATION property=%s replay=%s\n", v.Prop, path)
	return 1
}

// eventLog prints one line per run with a hash of its outcome: used by the
// determinism self-test to diff whole batches across processes / GOMAXPROCS.
func eventLog(prop, tier string, seeds []uint64, runs int) {
	mon := sim.MonitorsFor(prop)
	for _, s := range seeds {
		for i := 0; i < runs; i++ {
			sc := sim.Build(prop, s, uint64(i), tier)
			b, _ := json.Marshal(sc)
			st := sim.NewStats()
			st.WantObs, st.Obs = true, 14695981039346656037
			v := sim.Exec(sc, mon, st)
			var h uint64 = 14695981039346656037
			for _, c := range b {
				h = (h ^ uint64(c)) * 1099511628211
			}
			vs := "-"
			if v != nil {
				vs = v.String()
			}
			fmt.Printf("%d %d scen=%016x calls=%d units=%d susp=%d obs=%016x v=%s\n", s, i, h, st.Calls, st.Units, len(st.Susp), st.Obs, vs)
		}
	}
}

func writeEvidence(prop, tier string, seed uint64, seeds []uint64, res *sim.RunResult, path string, skip bool, mode string, violations int, vprop string) {
	if skip {
		return
	}
	if path == "" {
		path = filepath.Join("evidence", prop+".json")
	}
	st := res.Stats
	distinct := len(st.Susp)
	rule := "One evaluation = one simulated world: a scenario (peers' byte streams, receiver knobs, totally ordered delivery/fault events) generated from (VERIF_SEED, run index) and executed against the real library. " +
		"distinct_nontrivial = number of distinct suspension signatures reached: hash of (driver kind, vector of the library's internal automaton states at a more-bytes suspension, byte class before and after the cut); " +
		"a run that never suspends inside a unit contributes nothing. Counted in a set, not derived from evaluations."
	switch prop {
	case "C06":
		distinct = len(st.Triples)
		rule = "One evaluation = one simulated world of pipelined, ground-truth-bearing connections. distinct_nontrivial = number of distinct (parse flags, end-of-input flag, EOF state, Content-Length relation smaller/exact/larger/none/huge, verdict) classes at which the framing reference model was compared with a receiver call; counted in a set."
	case "C19":
		distinct = len(st.Triples)
		rule = "One evaluation = one world with 2-4 connections carrying metamorphic variants of one request. distinct_nontrivial = number of distinct (variant recipe, array fits?, request?, signature verdict, header-signature length) classes observed; counted in a set."
	case "C04":
		distinct = len(st.Verdicts) + len(st.Inter) + len(st.Susp)
		rule = "One evaluation = one world of hostile connections or of 1-4 independent tasks. distinct_nontrivial = distinct (driver, verdict) pairs + distinct interleaving prefixes (first 16 scheduling decisions) of multi-task worlds + distinct suspension signatures; each counted in a set."
	}
	cov := map[string]interface{}{
		"evaluations":                    res.Runs,
		"distinct_nontrivial":            distinct,
		"rule":                           rule,
		"samples":                        samplesOf(st),
		"runs":                           res.Runs,
		"seeds":                          seeds,
		"library_calls":                  st.Calls,
		"units_decided":                  st.Units,
		"runs_per_hour":                  int64(float64(res.Runs) / (res.Wall + 1e-9) * 3600),
		"seeds_per_hour":                 float64(len(seeds)) / (res.Wall + 1e-9) * 3600,
		"sim_time_covered_s":             float64(st.SimTimeUs) / 1e6,
		"sim_time_note":                  "virtual time only orders arrivals across connections and models slow/stalled peers; the library reads no clock and no property depends on it",
		"fault_counts":                   st.Faults,
		"probes":                         st.Probes,
		"driver_counts":                  st.Drivers,
		"verdict_counts":                 st.Verdicts,
		"cut_class_counts":               st.Cuts,
		"distinct_suspension_signatures": len(st.Susp),
		"distinct_interleaving_prefixes": len(st.Inter),
		"c03_forked_continuations":       st.Forks(),
		"task_interleaving_mode":         mode,
		"known_finding_hits":             res.KnownHits,
		"timed_out":                      res.TimedOut,
		"exhaustive":                     false,
		"components": map[string]string{
			"package sipsp (all parsers, compare, signature, lookup), bytescase, slog": "real code built from /repo's working tree",
			"network, peers, clock, scheduler, fault injector":                         "simulated (harness)",
			"receiver loop, object pool, buffer management":                            "harness model of user code following the documented call protocol",
			"allocator, OS": "real, irrelevant (parse paths do no I/O)",
		},
	}
	if embedFiles != "" {
		subs := map[string]interface{}{}
		for _, f := range strings.Split(embedFiles, ",") {
			b, err := ioutil.ReadFile(f)
			if err != nil {
				subs[f] = "missing: " + err.Error()
				continue
			}
			var x map[string]interface{}
			if json.Unmarshal(b, &x) == nil {
				c, _ := x["coverage"].(map[string]interface{})
				delete(c, "components")
				delete(c, "rule")
				subs[filepath.Base(f)] = map[string]interface{}{"wall_s": x["wall_s"], "violations": x["violations"], "coverage": c}
			}
		}
		cov["sub_passes"] = subs
	}
	ev := map[string]interface{}{
		"property_id": prop,
		"tier":        tier,
		"seed":        int64(seed),
		"level":       "exploration",
		"coverage":    cov,
		"assumptions": []string{
			"sampling, not enumeration: a clean batch is evidence, not proof",
			"receiver drivers follow the documented call protocol (continue at the returned offset on the extended buffer, same object; end-of-input flag only on the call made at EOF)",
			"an empty PField (Len==0) denotes no bytes; its Offs is not an observation",
			"trusted: Go toolchain, reflect-based read-back, math/big, harness PRNG",
		},
		"wall_s":     res.Wall,
		"violations": violations,
	}
	if vprop != "" {
		ev["violation_property"] = vprop
	}
	b, _ := json.MarshalIndent(ev, "", " ")
	os.MkdirAll(filepath.Dir(path), 0755)
	tmp := path + ".tmp"
	if err := ioutil.WriteFile(tmp, b, 0644); err != nil {
		fatal("write evidence: %v", err)
	}
	os.Rename(tmp, path)
	_ = time.Now
}

func samplesOf(st *sim.Stats) []json.RawMessage {
	if len(st.Samples) == 0 {
		return []json.RawMessage{json.RawMessage(`"no sample captured"`)}
	}
	return st.Samples
}
