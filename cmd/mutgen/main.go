// mutgen enumerates small syntactic changes ("mutants") of the library's non-test
// sources and writes one of them into a scratch copy. It is a self-test tool for the
// checks (selftest/automut.sh): it never touches /repo.
//
//	mutgen -src /repo -list                 one JSON line per mutant
//	mutgen -src /repo -dst DIR -n K         copy the sources to DIR with mutant K applied
package main

import (
	"encoding/json"
	"flag"
	"fmt"
	"go/ast"
	"go/parser"
	"go/token"
	"os"
	"path/filepath"
	"sort"
	"strconv"
	"strings"
)

type Mut struct {
	N     int    `json:"n"`
	File  string `json:"file"`
	Line  int    `json:"line"`
	Func  string `json:"func"`
	Kind  string `json:"kind"`
	Orig  string `json:"orig"`
	Repl  string `json:"repl"`
	Start int    `json:"start"`
	End   int    `json:"end"`
}

var skipFiles = map[string]bool{"log_common.go": true, "log_debug.go": true, "log_nodebug.go": true, "parse_errors.go": true, "sipsp.go": true}

func collect(src string) ([]Mut, map[string][]byte) {
	names, _ := filepath.Glob(filepath.Join(src, "*.go"))
	sort.Strings(names)
	var muts []Mut
	files := map[string][]byte{}
	for _, fn := range names {
		base := filepath.Base(fn)
		data, err := os.ReadFile(fn)
		if err != nil {
			panic(err)
		}
		files[base] = data
		if strings.HasSuffix(base, "_test.go") || skipFiles[base] {
			continue
		}
		fset := token.NewFileSet()
		f, err := parser.ParseFile(fset, fn, data, 0)
		if err != nil {
			panic(err)
		}
		off := func(p token.Pos) int { return fset.Position(p).Offset }
		add := func(fun, kind string, s, e token.Pos, repl string) {
			muts = append(muts, Mut{File: base, Line: fset.Position(s).Line, Func: fun, Kind: kind,
				Orig: string(data[off(s):off(e)]), Repl: repl, Start: off(s), End: off(e)})
		}
		for _, d := range f.Decls {
			fd, ok := d.(*ast.FuncDecl)
			if !ok || fd.Body == nil {
				continue
			}
			fun := fd.Name.Name
			if fd.Recv != nil && len(fd.Recv.List) > 0 {
				t := fd.Recv.List[0].Type
				if st, ok := t.(*ast.StarExpr); ok {
					t = st.X
				}
				if id, ok := t.(*ast.Ident); ok {
					fun = id.Name + "." + fun
				}
			}
			if fun == "init" || strings.HasPrefix(fun, "DBG") || strings.HasSuffix(fun, ".String") {
				continue
			}
			ast.Inspect(fd.Body, func(n ast.Node) bool {
				switch x := n.(type) {
				case *ast.CallExpr:
					// never mutate inside logging / panic arguments
					if id, ok := x.Fun.(*ast.Ident); ok && (id.Name == "panic" || strings.HasPrefix(id.Name, "DBG") || strings.HasPrefix(id.Name, "ERR") || strings.HasPrefix(id.Name, "WARN") || strings.HasPrefix(id.Name, "BUG")) {
						return false
					}
					if se, ok := x.Fun.(*ast.SelectorExpr); ok {
						if id, ok := se.X.(*ast.Ident); ok && (id.Name == "Log" || id.Name == "fmt") {
							return false
						}
					}
				case *ast.BinaryExpr:
					var alts []string
					switch x.Op {
					case token.LSS:
						alts = []string{"<=", ">="}
					case token.LEQ:
						alts = []string{"<", "=="}
					case token.GTR:
						alts = []string{">=", "<="}
					case token.GEQ:
						alts = []string{">", "=="}
					case token.EQL:
						alts = []string{"!="}
					case token.NEQ:
						alts = []string{"=="}
					case token.LAND:
						alts = []string{"||"}
					case token.LOR:
						alts = []string{"&&"}
					case token.ADD:
						if _, isStr := x.Y.(*ast.BasicLit); !isStr || x.Y.(*ast.BasicLit).Kind != token.STRING {
							alts = []string{"-"}
						}
					case token.SUB:
						alts = []string{"+"}
					}
					for _, a := range alts {
						add(fun, "op", x.OpPos, x.OpPos+token.Pos(len(x.Op.String())), a)
					}
				case *ast.BasicLit:
					if x.Kind == token.INT {
						if v, err := strconv.ParseInt(x.Value, 0, 64); err == nil {
							add(fun, "lit", x.Pos(), x.End(), strconv.FormatInt(v+1, 10))
							if v > 0 {
								add(fun, "lit", x.Pos(), x.End(), strconv.FormatInt(v-1, 10))
							}
						}
					}
				case *ast.IfStmt:
					add(fun, "negate", x.Cond.Pos(), x.Cond.End(), "!("+string(data[off(x.Cond.Pos()):off(x.Cond.End())])+")")
				case *ast.ForStmt:
					if x.Cond != nil {
						add(fun, "loop-false", x.Cond.Pos(), x.Cond.End(), "false && ("+string(data[off(x.Cond.Pos()):off(x.Cond.End())])+")")
					}
				case *ast.AssignStmt:
					if x.Tok != token.DEFINE {
						add(fun, "del-assign", x.Pos(), x.End(), "{}")
					}
				case *ast.IncDecStmt:
					add(fun, "del-incdec", x.Pos(), x.End(), "{}")
				case *ast.ExprStmt:
					if _, ok := x.X.(*ast.CallExpr); ok {
						add(fun, "del-call", x.Pos(), x.End(), "{}")
					}
				case *ast.BranchStmt:
					if x.Label == nil && x.Tok == token.BREAK {
						add(fun, "break-continue", x.Pos(), x.End(), "{}")
					}
					if x.Tok == token.GOTO {
						return true
					}
				case *ast.CaseClause:
					// drop the body of a case (falls out of the switch doing nothing)
					if len(x.Body) > 0 && len(x.List) > 0 {
						add(fun, "empty-case", x.Body[0].Pos(), x.Body[len(x.Body)-1].End(), "{}")
					}
				}
				return true
			})
		}
	}
	// for-post statements cannot be replaced by a block: filter by trying to parse later (the build step discards them)
	for i := range muts {
		muts[i].N = i
	}
	return muts, files
}

func main() {
	src := flag.String("src", "/repo", "library sources")
	dst := flag.String("dst", "", "scratch directory to write")
	n := flag.Int("n", -1, "mutant number")
	list := flag.Bool("list", false, "list mutants")
	flag.Parse()
	muts, files := collect(*src)
	if *list {
		enc := json.NewEncoder(os.Stdout)
		for _, m := range muts {
			enc.Encode(m)
		}
		return
	}
	if *n < 0 || *n >= len(muts) || *dst == "" {
		fmt.Fprintln(os.Stderr, "mutants:", len(muts))
		os.Exit(2)
	}
	m := muts[*n]
	os.MkdirAll(*dst, 0o755)
	for name, data := range files {
		if name == m.File {
			data = []byte(string(data[:m.Start]) + m.Repl + string(data[m.End:]))
		}
		if err := os.WriteFile(filepath.Join(*dst, name), data, 0o644); err != nil {
			panic(err)
		}
	}
	for _, extra := range []string{"go.mod", "go.sum"} {
		if b, err := os.ReadFile(filepath.Join(*src, extra)); err == nil {
			os.WriteFile(filepath.Join(*dst, extra), b, 0o644)
		}
	}
	b, _ := json.Marshal(m)
	fmt.Println(string(b))
}
