package sim

import (
	"encoding/json"
	"fmt"
	"sort"
	"strconv"

	"github.com/intuitivelabs/sipsp"

	"verif/gen"
	"verif/oracle"
	"verif/sut"
)

// Stats is what a batch of runs actually reached. Every number is counted
// where the thing happens (a fault is counted when it fires, not when it is
// configured). One Stats per worker; merged at the end.
type Stats struct {
	Runs      int64
	Calls     int64
	Units     int64
	forks     int64
	SimTimeUs int64
	Faults    map[string]int64
	Probes    map[string]int64
	Drivers   map[string]int64
	Verdicts  map[string]int64    // "kind/verdict"
	Cuts      map[string]int64    // "before|after" byte classes around a delivery boundary inside a unit
	Susp      map[uint64]struct{} // distinct suspension signatures
	Triples   map[string]struct{} // per-property distinct non-trivial classes (see evidence rule)
	Inter     map[uint64]struct{} // distinct interleaving prefixes (multi-task runs)
	Samples   []json.RawMessage
	lastCut   [2]byte
	WantObs   bool   // event-log mode: keep a fingerprint of everything the calls returned and reported
	Obs       uint64 // that fingerprint
}

func NewStats() *Stats {
	return &Stats{Faults: map[string]int64{}, Probes: map[string]int64{}, Drivers: map[string]int64{},
		Verdicts: map[string]int64{}, Cuts: map[string]int64{}, Susp: map[uint64]struct{}{},
		Triples: map[string]struct{}{}, Inter: map[uint64]struct{}{}}
}

func (s *Stats) fault(k string) { s.Faults[k]++ }
func (s *Stats) probe(k string) { s.Probes[k]++ }

func byteClass(c byte) string {
	switch {
	case c == '\r':
		return "CR"
	case c == '\n':
		return "LF"
	case c == ' ' || c == '\t':
		return "WS"
	case c >= '0' && c <= '9':
		return "digit"
	case c == '"':
		return "quote"
	case c == '\\':
		return "bslash"
	case c == ':' || c == ';' || c == ',' || c == '=' || c == '<' || c == '>' || c == '?' || c == '&':
		return "delim"
	case c >= 0x80 || c < 0x20:
		return "bin"
	}
	return "tok"
}

// noteCut classifies the bytes around a delivery boundary (called before L grows).
func (s *Stats) noteCut(cs *connState, newL int) {
	if cs.L <= cs.junk {
		s.lastCut = [2]byte{0, 0}
		return
	}
	// the previous delivery ended at cs.L: bytes cs.L-1 | cs.L
	b, a := cs.full[cs.L-1], cs.full[cs.L]
	s.lastCut = [2]byte{b, a}
	if cs.drv != nil {
		s.Cuts[byteClass(b)+"|"+byteClass(a)]++
		if b == '\r' && a == '\n' {
			s.probe("cut-inside-CRLF")
		}
		if (b == '\n' || b == '\r') && (a == ' ' || a == '\t') {
			s.probe("cut-between-EOL-and-fold")
		}
		if b == '\\' {
			s.probe("cut-after-backslash")
		}
		if b >= '0' && b <= '9' && a >= '0' && a <= '9' {
			s.probe("cut-inside-digits")
		}
	}
}

func (s *Stats) call(cs *connState, err sipsp.ErrorHdr) {
	s.Calls++
	if int(err) > int(sipsp.ErrHdrTooManyVals) {
		s.Verdicts[cs.c.Cfg.Kind+"/?"]++
		return
	}
	s.Verdicts[cs.c.Cfg.Kind+"/"+err.Error()]++
}

// suspend records where a unit was suspended.
func (s *Stats) suspend(cs *connState, buf []byte) {
	h := sut.StateSig(cs.drv)
	var last byte
	if len(buf) > 0 {
		last = buf[len(buf)-1]
	}
	var next byte
	if len(cs.full) > len(buf) {
		next = cs.full[len(buf)]
	}
	key := h
	for _, c := range byteClass(last) + "|" + byteClass(next) + "|" + cs.c.Cfg.Kind {
		key = key*1099511628211 ^ uint64(c)
	}
	s.Susp[key] = struct{}{}
	if cs.c.Obj >= 0 {
		s.probe("suspended-on-pooled-object")
	}
}

func (s *Stats) unit(cs *connState, ur *oracle.UnitResult) {
	s.Units++
	s.Drivers[cs.c.Cfg.Kind]++
	if ur.BufLen >= 65000 {
		s.probe("near-limit-buffer")
	}
	if ur.Start > 0 {
		s.probe("unit-at-nonzero-offset")
	}
	if ur.Calls > 1 {
		s.probe("unit-resumed")
	}
	if ur.Unit > 0 {
		s.probe("pipelined-unit")
	}
}

// c06 counts distinct (flags, Content-Length relation, verdict, eof) classes.
func (s *Stats) c06(spec *gen.MsgSpec, cfg sut.Cfg, err sipsp.ErrorHdr, eof bool) {
	rel := "none"
	if i := spec.FirstOf("content-length"); i >= 0 {
		rel = "cl"
		if v, e := strconv.Atoi(spec.Hdrs[i].Val); e == nil {
			switch {
			case v == len(spec.Body):
				rel = "exact"
			case v < len(spec.Body):
				rel = "smaller"
			case v > 1<<24:
				rel = "huge"
			default:
				rel = "larger"
			}
		} else {
			rel = "huge"
		}
	}
	s.Triples[fmt.Sprintf("flags=%d eofflag=%v eof=%v cl=%s verdict=%d", cfg.Flags, cfg.EOFFlag, eof, rel, err)] = struct{}{}
}

func (s *Stats) Merge(o *Stats) {
	s.Runs += o.Runs
	s.Calls += o.Calls
	s.Units += o.Units
	s.forks += o.forks
	s.SimTimeUs += o.SimTimeUs
	for k, v := range o.Faults {
		s.Faults[k] += v
	}
	for k, v := range o.Probes {
		s.Probes[k] += v
	}
	for k, v := range o.Drivers {
		s.Drivers[k] += v
	}
	for k, v := range o.Verdicts {
		s.Verdicts[k] += v
	}
	for k, v := range o.Cuts {
		s.Cuts[k] += v
	}
	for k := range o.Susp {
		s.Susp[k] = struct{}{}
	}
	for k := range o.Triples {
		s.Triples[k] = struct{}{}
	}
	for k := range o.Inter {
		s.Inter[k] = struct{}{}
	}
	for _, x := range o.Samples {
		if len(s.Samples) < 4 {
			s.Samples = append(s.Samples, x)
		}
	}
}

func (s *Stats) Forks() int64 { return s.forks }

// sortedKeys is used wherever a map is written out, so that output never
// depends on map iteration order.
func sortedKeys(m map[string]int64) []string {
	ks := make([]string, 0, len(m))
	for k := range m {
		ks = append(ks, k)
	}
	sort.Strings(ks)
	return ks
}

// StatsWire is Stats in a form that survives JSON (sets as slices): child
// processes hand their counts to the parent with it.
type StatsWire struct {
	Runs, Calls, Units, Forks, SimTimeUs int64
	Faults, Probes, Drivers, Verdicts    map[string]int64
	Cuts                                 map[string]int64
	Susp, Inter                          []uint64
	Triples                              []string
	Samples                              []json.RawMessage
}

func (s *Stats) Wire() *StatsWire {
	w := &StatsWire{Runs: s.Runs, Calls: s.Calls, Units: s.Units, Forks: s.forks, SimTimeUs: s.SimTimeUs,
		Faults: s.Faults, Probes: s.Probes, Drivers: s.Drivers, Verdicts: s.Verdicts, Cuts: s.Cuts, Samples: s.Samples}
	for k := range s.Susp {
		w.Susp = append(w.Susp, k)
	}
	for k := range s.Inter {
		w.Inter = append(w.Inter, k)
	}
	for k := range s.Triples {
		w.Triples = append(w.Triples, k)
	}
	return w
}

func (w *StatsWire) Stats() *Stats {
	s := NewStats()
	s.Runs, s.Calls, s.Units, s.forks, s.SimTimeUs = w.Runs, w.Calls, w.Units, w.Forks, w.SimTimeUs
	for k, v := range w.Faults {
		s.Faults[k] = v
	}
	for k, v := range w.Probes {
		s.Probes[k] = v
	}
	for k, v := range w.Drivers {
		s.Drivers[k] = v
	}
	for k, v := range w.Verdicts {
		s.Verdicts[k] = v
	}
	for k, v := range w.Cuts {
		s.Cuts[k] = v
	}
	for _, k := range w.Susp {
		s.Susp[k] = struct{}{}
	}
	for _, k := range w.Inter {
		s.Inter[k] = struct{}{}
	}
	for _, k := range w.Triples {
		s.Triples[k] = struct{}{}
	}
	s.Samples = w.Samples
	return s
}

// ChildResult is what a child process reports to the parent.
type ChildResult struct {
	Stats     *StatsWire
	Found     *Found
	KnownHits map[string]int64
	KnownEx   map[string]string
	Wall      float64
	TimedOut  bool
	Stalled   string
}
