package sim

import (
	"fmt"
	"sort"
	"strconv"

	"verif/gen"
	"verif/rng"
	"verif/sut"
)

// Build generates the scenario of run `index` of seed `seed` for a property.
// All randomness of a run is consumed here; executing the scenario draws
// nothing.
func Build(prop string, seed, index uint64, tier string) *Scenario {
	r := rng.NewRng(seed^propSalt(prop), index)
	b := &builder{r: r, g: gen.New(r.Fork()), sc: &Scenario{Prop: prop, Seed: seed, Index: index}, tier: tier}
	switch prop {
	case "C01":
		b.buildC01()
	case "C02":
		b.buildC02()
	case "C03":
		b.buildC03()
	case "C04":
		b.buildC04()
	case "C05":
		b.buildC05()
	case "C06":
		b.buildC06()
	case "C10":
		b.buildC10()
	case "C11":
		b.buildC11()
	case "C12":
		b.buildC12()
	case "C13":
		b.buildC13()
	case "C19":
		b.buildC19()
	default:
		panic("Build: unknown property " + prop)
	}
	return b.sc
}

func propSalt(p string) uint64 {
	var h uint64 = 14695981039346656037
	for i := 0; i < len(p); i++ {
		h = (h ^ uint64(p[i])) * 1099511628211
	}
	return h
}

type builder struct {
	r    *rng.Rng
	g    *gen.G
	sc   *Scenario
	tier string
	now  int64
}

var subKinds = []string{"fline", "hdrline", "headers", "nameaddr", "fromval", "onecontact", "onepai",
	"contacts", "pais", "cseq", "callid", "uint", "clen", "expires", "tokparam", "uriparams", "urihdrs", "skipquoted"}

// subKindsAll adds the one-shot URI driver (not a resumable parser: kept out of C02/C03).
var subKindsAll = append(append([]string(nil), subKinds...), "uri")

var nameAddrHTypes = []int{1, 2, 8, 11, 12, 13} // From, To, Contact, Record-Route, Route, PAI

// big: a minority of runs uses long header blocks, big bodies and long
// pipelines; more often in the thorough tier.
func (b *builder) big(o *gen.MsgOpts, maxMsgs *int) {
	p := 60
	if b.tier == "thorough" {
		p = 8
	}
	if !b.r.Chance(1, p) {
		return
	}
	o.ManyHdrs = true
	o.MaxHdrs = 0
	if b.r.Chance(1, 3) {
		o.BodyMax = 20000
	}
	if maxMsgs != nil {
		*maxMsgs = 8
	}
}

// ---------------------------------------------------------------- receiver configuration

func (b *builder) capKnob(max int) int {
	switch b.r.Intn(6) {
	case 0:
		return -1
	case 1:
		return 0
	case 2:
		return 1
	}
	return b.r.Range(0, max)
}

func (b *builder) msgCfg() sut.Cfg {
	c := sut.Cfg{Kind: "msg", Flags: uint(b.r.Intn(4)), EOFFlag: b.r.Chance(1, 2)}
	c.HdrCap = b.capKnob(24)
	c.ConCap = b.capKnob(6)
	if b.r.Chance(1, 25) {
		c.HdrCap = -2 // object used without Init()
	}
	return c
}

// hbMask: some receivers bring their own PHBodies that has no room for some kinds of values.
func (b *builder) hbMask(noHB bool) uint8 {
	if noHB || !b.r.Chance(1, 4) {
		return 0
	}
	if b.r.Chance(1, 2) {
		return uint8(1) << uint(b.r.Intn(8))
	}
	return uint8(b.r.Intn(256))
}

func (b *builder) subCfg(kind string) sut.Cfg {
	c := sut.Cfg{Kind: kind, HdrCap: -1, ConCap: -1, ParCap: -1}
	switch kind {
	case "hdrline":
		c.ConCap = b.capKnob(4)
		c.NoHB = b.r.Chance(1, 5)
		c.HBMask = b.hbMask(c.NoHB)
	case "headers":
		c.HdrCap = b.capKnob(16)
		c.ConCap = b.capKnob(4)
		c.NoHB = b.r.Chance(1, 8)
		c.HBMask = b.hbMask(c.NoHB)
	case "nameaddr":
		c.HType = nameAddrHTypes[b.r.Intn(len(nameAddrHTypes))]
	case "contacts":
		c.ConCap = b.capKnob(5)
	case "tokparam":
		c.Flags = b.g.TokFlags()
		c.EOFFlag = b.r.Chance(1, 2)
	case "uriparams", "urihdrs":
		c.Flags = b.g.ListFlags()
		c.ParCap = b.capKnob(5)
		c.EOFFlag = b.r.Chance(1, 2)
	}
	return c
}

// ---------------------------------------------------------------- peer content

// msgStream makes what a peer sends to a whole-message receiver: structured
// messages (truth kept) or raw bytes (hostile / corrupted / truncated).
func (b *builder) msgStream(c *Conn, hostile int, o gen.MsgOpts, maxMsgs int) {
	c.Realloc = b.r.Chance(1, 4)
	n := 1
	if maxMsgs > 1 && b.r.Chance(1, 3) {
		n = b.r.Range(2, maxMsgs)
	}
	var msgs []gen.MsgSpec
	for i := 0; i < n; i++ {
		msgs = append(msgs, b.g.Msg(o))
	}
	// a lone-CR blank line at the very end of a stream can never be recognised; keep streams decidable
	last := &msgs[len(msgs)-1]
	if last.Blank == "\r" && len(last.Body) == 0 {
		last.Blank = "\r\n"
	}
	for i := 0; i+1 < len(msgs); i++ {
		if msgs[i].Blank == "\r" && len(msgs[i].Body) == 0 && len(msgs[i+1].FLine) > 0 && msgs[i+1].FLine[0] == '\n' {
			msgs[i].Blank = "\r\n"
		}
	}
	h := b.r.Intn(100)
	switch {
	case h >= hostile:
		c.Msgs = msgs
		c.Clean = true
	default:
		tmp := Conn{Msgs: msgs}
		raw := tmp.Stream()
		switch b.r.Intn(10) {
		case 0:
			raw = b.g.Noise(b.r.Range(0, 300))
		case 1:
			raw = b.g.Random(b.r.Range(0, 200))
		case 2:
			raw = b.g.Truncate(raw)
		case 3:
			raw = b.g.Truncate(b.g.Mutate(raw, 3))
		default:
			raw = b.g.Mutate(raw, 4)
		}
		c.Raw = raw
	}
}

func (b *builder) junk(max int) gen.HexBytes {
	n := b.r.Range(1, max)
	switch b.r.Intn(3) {
	case 0:
		return b.g.Random(n)
	case 1:
		return b.g.Noise(n)
	}
	j := make([]byte, n)
	for i := range j {
		j[i] = "\r\n x:"[b.r.Intn(5)]
	}
	return j
}

// ---------------------------------------------------------------- schedules

const (
	schedOne      = iota // everything in one delivery
	schedLink            // MSS-sized segments, receiver read size
	schedAdv             // cuts at biased interesting positions
	schedTrickle         // one byte at a time
	schedSingle          // exactly one cut (the "every single cut" family)
	schedDenseEnd        // coarse, then byte by byte near the end
)

// interesting returns stream positions where a cut is likely to matter.
func interesting(s []byte) []int {
	var p []int
	for i := 1; i < len(s); i++ {
		a, c := s[i-1], s[i]
		switch {
		case a == '\r' || a == '\n' || c == '\r' || c == '\n':
			p = append(p, i)
		case a == '\\' || a == '"' || c == '"':
			p = append(p, i)
		case a >= '0' && a <= '9' && c >= '0' && c <= '9':
			p = append(p, i)
		case a == ';' || a == '=' || a == ',' || a == '<' || a == '>' || a == ':' || a == '?' || a == '&' ||
			c == ';' || c == '=' || c == ',' || c == '<' || c == '>' || c == ':' || c == '?' || c == '&':
			p = append(p, i)
		case (a == ' ' || a == '\t') != (c == ' ' || c == '\t'):
			p = append(p, i)
		}
	}
	return p
}

// cuts returns increasing delivery boundaries, the last one == len(s).
func (b *builder) cuts(s []byte, mode int) []int {
	n := len(s)
	if n == 0 {
		return nil
	}
	var cs []int
	switch mode {
	case schedOne:
	case schedLink:
		mss := b.r.PickInt(1, 2, 3, 7, 16, 64, 128, 536, 1460)
		if b.r.Chance(1, 2) {
			mss = b.r.Range(1, 1460)
		}
		for p := mss; p < n; p += mss {
			cs = append(cs, p)
			if b.r.Chance(1, 8) {
				mss = b.r.Range(1, 1460) // path MTU change / partial read
			}
		}
	case schedAdv:
		ip := interesting(s)
		k := b.r.Range(1, 12)
		for i := 0; i < k; i++ {
			if len(ip) > 0 && b.r.Chance(4, 5) {
				cs = append(cs, ip[b.r.Intn(len(ip))])
			} else {
				cs = append(cs, b.r.Range(1, n))
			}
		}
	case schedTrickle:
		for p := 1; p < n; p++ {
			cs = append(cs, p)
		}
	case schedSingle:
		if n > 1 {
			cs = append(cs, b.r.Range(1, n-1))
		}
	case schedDenseEnd:
		k := b.r.Range(1, 40)
		st := n - k
		if st > 1 {
			cs = append(cs, b.r.Range(1, st))
		}
		for p := max(st, 1); p < n; p++ {
			cs = append(cs, p)
		}
	}
	cs = append(cs, n)
	sort.Ints(cs)
	out := cs[:0]
	last := 0
	for _, c := range cs {
		if c > last && c <= n {
			out = append(out, c)
			last = c
		}
	}
	return out
}

func max(a, b int) int {
	if a > b {
		return a
	}
	return b
}

func (b *builder) pickSched(streamLen int) int {
	if streamLen > 3000 {
		return b.r.PickInt(schedOne, schedLink, schedAdv, schedSingle)
	}
	return b.r.PickInt(schedOne, schedLink, schedLink, schedAdv, schedAdv, schedAdv, schedTrickle, schedSingle, schedSingle, schedDenseEnd)
}

// Endings of a connection.
const (
	endNone     = iota // the peer just stops sending (no FIN seen in this history)
	endEOFWith         // FIN arrives together with the last bytes
	endEOFAfter        // FIN arrives after the last bytes
	endAbort           // connection reset at an arbitrary point of the schedule
	endEOFEarly        // FIN after a prefix of the stream only (peer died mid-message)
)

type connPlan struct {
	conn int
	cuts []int
	end  int
	t0   int64
}

// schedule turns per-connection cut lists into one totally ordered event list.
func (b *builder) schedule(plans []connPlan) {
	type tev struct {
		at  int64
		seq int
		ev  Event
	}
	var all []tev
	seq := 0
	for _, p := range plans {
		t := p.t0
		cuts := p.cuts
		end := p.end
		abortAt := -1
		if end == endAbort && len(cuts) > 0 {
			abortAt = b.r.Intn(len(cuts) + 1)
		}
		if end == endEOFEarly && len(cuts) > 1 {
			cuts = cuts[:b.r.Range(1, len(cuts)-1)]
		}
		for i, c := range cuts {
			if i == abortAt {
				all = append(all, tev{t, seq, Event{Op: EvAbort, Conn: p.conn, At: t}})
				seq++
				break
			}
			lat := int64(b.r.Range(20, 2000))
			if b.r.Chance(1, 50) {
				lat += int64(b.r.Range(100000, 30000000)) // slow / stalled peer
			}
			t += lat
			ev := Event{Op: EvDeliver, Conn: p.conn, Upto: c, At: t}
			if i == len(cuts)-1 && end == endEOFWith {
				ev.EOF = true
			}
			all = append(all, tev{t, seq, ev})
			seq++
		}
		if abortAt == len(cuts) {
			t += 10
			all = append(all, tev{t, seq, Event{Op: EvAbort, Conn: p.conn, At: t}})
			seq++
		}
		if end == endEOFAfter || end == endEOFEarly {
			t += int64(b.r.Range(10, 1000))
			all = append(all, tev{t, seq, Event{Op: EvEOF, Conn: p.conn, At: t}})
			seq++
		}
	}
	sort.SliceStable(all, func(i, j int) bool {
		if all[i].at != all[j].at {
			return all[i].at < all[j].at
		}
		return all[i].seq < all[j].seq
	})
	for _, e := range all {
		b.sc.Events = append(b.sc.Events, e.ev)
	}
}

func (b *builder) pickEnd() int {
	return b.r.PickInt(endNone, endNone, endEOFWith, endEOFWith, endEOFAfter, endEOFAfter, endAbort, endEOFEarly)
}

// addCorruption sprinkles in-flight corruption events in front of deliveries.
func (b *builder) addCorruption(conn int, streamLen int, k int) {
	if streamLen == 0 {
		return
	}
	for ; k > 0; k-- {
		pos := b.r.Intn(streamLen)
		ev := Event{Op: EvCorrupt, Conn: conn, Pos: pos, Byte: []byte(" \t\r\n:;,=<>\"\\0a\x00\xff")[b.r.Intn(16)]}
		// insert before a random event
		at := b.r.Intn(len(b.sc.Events) + 1)
		b.sc.Events = append(b.sc.Events, Event{})
		copy(b.sc.Events[at+1:], b.sc.Events[at:])
		b.sc.Events[at] = ev
	}
}

func limitStream(c *Conn) {
	// keep junk + stream inside the documented 65,535-byte limit
	for {
		n := len(c.Junk) + len(c.Stream())
		if n <= 65535 {
			return
		}
		if len(c.Msgs) > 1 {
			c.Msgs = c.Msgs[:len(c.Msgs)-1]
			continue
		}
		if c.Msgs != nil {
			c.Raw = c.Stream()
			c.Msgs = nil
		}
		c.Raw = c.Raw[:65535-len(c.Junk)]
	}
}

// ---------------------------------------------------------------- per-property populations

// C01: whole-message parser, resumed vs one-shot.
func (b *builder) buildC01() {
	nc := b.r.PickInt(1, 1, 1, 2, 3)
	var plans []connPlan
	for i := 0; i < nc; i++ {
		c := Conn{Cfg: b.msgCfg(), Obj: -1, Compact: b.r.Chance(1, 2)}
		if b.r.Chance(1, 10) {
			// the flags are a per-call argument: some receivers change them between the calls of
			// one message (the one-shot side of the comparison gets the flags of the call it mirrors)
			c.Cfg.LateFrom = b.r.Range(1, 5)
			c.Cfg.FlagsLate = uint(b.r.Intn(4))
		}
		o := gen.MsgOpts{Request: -1, CL: gen.CLAny, BodyMax: 600, WildNumbers: b.r.Chance(1, 4), MaxHdrs: b.r.PickInt(0, 0, 3, 8, 40)}
		if b.r.Chance(1, 60) {
			o.BodyMax = 60000
		}
		mm := 3
		b.big(&o, &mm)
		b.msgStream(&c, 40, o, mm)
		if b.r.Chance(1, 4) {
			c.Junk = b.junk(40)
		}
		limitStream(&c)
		s := c.Stream()
		b.sc.Conns = append(b.sc.Conns, c)
		plans = append(plans, connPlan{conn: i, cuts: b.cuts(s, b.pickSched(len(s))), end: b.pickEnd(), t0: int64(b.r.Intn(5000))})
	}
	b.schedule(plans)
}

func (b *builder) subConn(kind string, hostilePct int) Conn {
	c := Conn{Cfg: b.subCfg(kind), Obj: -1, Realloc: b.r.Chance(1, 4)}
	txt := b.g.SubText(kind, c.Cfg.Flags, c.Cfg.HType)
	c.Clean = true
	if b.r.Intn(100) < hostilePct {
		c.Clean = false
		switch b.r.Intn(6) {
		case 0:
			txt = b.g.Noise(b.r.Range(0, 80))
		case 1:
			txt = b.g.Truncate(txt)
		default:
			txt = b.g.Mutate(txt, 3)
		}
	}
	c.Raw = txt
	if b.r.Chance(1, 2) {
		c.Junk = b.junk(24)
	}
	return c
}

// C02: every sub-parser driver, resumed vs one-shot.
func (b *builder) buildC02() {
	nc := b.r.PickInt(1, 1, 2, 3)
	var plans []connPlan
	for i := 0; i < nc; i++ {
		kind := subKinds[b.r.Intn(len(subKinds))]
		c := b.subConn(kind, 30)
		if c.Cfg.EOFFlag && b.r.Chance(1, 6) {
			// a receiver that believed the input had ended: one early call carries the end-of-input
			// flag; where the parser still answers "more bytes" the stream simply goes on
			c.EarlyEOF = b.r.Range(1, 4)
		}
		s := c.Stream()
		b.sc.Conns = append(b.sc.Conns, c)
		plans = append(plans, connPlan{conn: i, cuts: b.cuts(s, b.pickSched(len(s))), end: b.pickEnd(), t0: int64(b.r.Intn(5000))})
	}
	b.schedule(plans)
}

var baseForks = []string{" ", "\t", "\r", "\n", "\r\n", "\r\n ", "\r\n\t", "\r\nX", "\r\n\r\n", "\n ", "\r ", "0", "9", "\"", ";", ",", "=", "<", ">", ":", "a", "\\", "?", "&", "*", " x", "\r\n x\r\nY: z\r\n\r\n", "\x00", "\xff"}

// C03: trickle schedules + adversarial continuations after each definitive verdict.
func (b *builder) buildC03() {
	var c Conn
	if b.r.Chance(1, 2) {
		c = Conn{Cfg: b.msgCfg(), Obj: -1}
		o := gen.MsgOpts{Request: -1, CL: gen.CLAny, BodyMax: 60, WildNumbers: b.r.Chance(1, 4), MaxHdrs: b.r.PickInt(0, 3, 6, 12)}
		b.msgStream(&c, 35, o, 2)
	} else {
		c = b.subConn(subKinds[b.r.Intn(len(subKinds))], 30)
	}
	c.Cfg.EOFFlag = false // the end-of-input modes are exempt from C03
	if b.r.Chance(1, 4) {
		c.Junk = b.junk(16)
	} else {
		c.Junk = nil
	}
	limitStream(&c)
	s := c.Stream()
	mode := schedTrickle
	if b.r.Chance(1, 5) {
		mode = schedDenseEnd
	}
	if len(s) > 1500 {
		if b.r.Chance(2, 3) {
			// long streams (very long header lines, big bodies): segment-sized deliveries
			mode = b.r.PickInt(schedLink, schedLink, schedAdv)
		} else {
			c.Raw = s[:1500]
			c.Msgs = nil
			s = c.Raw
		}
	}
	b.sc.Conns = append(b.sc.Conns, c)
	b.schedule([]connPlan{{conn: 0, cuts: b.cuts(s, mode), end: endNone}})
	for _, f := range baseForks {
		b.sc.Forks = append(b.sc.Forks, gen.HexBytes(f))
	}
	for i := b.r.Intn(4); i > 0; i-- {
		b.sc.Forks = append(b.sc.Forks, b.g.Noise(b.r.Range(1, 10)))
	}
}

// C05: accepted messages with repeated / multi-value headers.
func (b *builder) buildC05() {
	if b.r.Chance(1, 4) {
		// accepted messages on a pooled object with caller arrays, behind abandoned / failed ones
		cfg := b.msgCfg()
		cfg.HdrCap = b.r.PickInt(-1, 12, 40)
		cfg.ConCap = b.r.PickInt(2, 4, 10)
		var plans []connPlan
		t := int64(0)
		for i := b.r.Range(2, 4); i > 0; i-- {
			c := Conn{Cfg: cfg, Obj: 0, ResetBy: b.r.Intn(2), Compact: b.r.Chance(1, 2)}
			o := gen.MsgOpts{Request: -1, CL: gen.CLExact, BodyMax: 60, MaxHdrs: b.r.PickInt(0, 6, 12)}
			b.msgStream(&c, 10, o, 2)
			limitStream(&c)
			s := c.Stream()
			b.sc.Conns = append(b.sc.Conns, c)
			plans = append(plans, connPlan{conn: len(b.sc.Conns) - 1, cuts: b.cuts(s, b.pickSched(len(s))), end: b.r.PickInt(endAbort, endAbort, endEOFEarly, endEOFWith, endNone), t0: t})
			t += 100000000
		}
		b.schedule(plans)
		return
	}
	c := Conn{Cfg: b.msgCfg(), Obj: -1, Compact: b.r.Chance(1, 2)}
	c.Cfg.HdrCap = b.r.PickInt(-1, 40, 40, 40, 5, 0)
	c.Cfg.ConCap = b.r.PickInt(-1, 10, 10, 2, 0)
	o := gen.MsgOpts{Request: -1, CL: b.r.PickInt(gen.CLExact, gen.CLExact, gen.CLNone, gen.CLDupEqual), BodyMax: 200, MaxHdrs: b.r.PickInt(0, 0, 6, 40)}
	mm := 3
	b.big(&o, &mm)
	if o.ManyHdrs {
		c.Cfg.HdrCap = b.r.PickInt(80, 80, 20, -1)
	}
	b.msgStream(&c, 15, o, mm)
	if b.r.Chance(1, 4) {
		c.Junk = b.junk(30)
	}
	limitStream(&c)
	s := c.Stream()
	b.sc.Conns = append(b.sc.Conns, c)
	b.schedule([]connPlan{{conn: 0, cuts: b.cuts(s, b.pickSched(len(s))), end: b.pickEnd()}})
}

// C06: pipelined well-formed messages with ground truth; lying peers; EOF /
// abort faults; separate population with in-flight corruption.
func (b *builder) buildC06() {
	b.g.Strict = true
	nc := b.r.PickInt(1, 1, 2)
	var plans []connPlan
	for i := 0; i < nc; i++ {
		c := Conn{Cfg: b.msgCfg(), Obj: i, Compact: b.r.Chance(1, 2), ResetBy: b.r.Intn(2)}
		// C06 quantifies over well-formed header blocks: first lines are canonical (the first line's
		// own grammar is C08's business, not the framing model's)
		o := gen.MsgOpts{Request: -1, CL: gen.CLAny, BodyMax: 300, MaxHdrs: b.r.PickInt(0, 0, 4, 12), Canonical: true}
		if b.r.Chance(1, 3) {
			o.CL = gen.CLExact
		}
		if b.r.Chance(1, 2) {
			o.ForceMethod = gen.Methods[b.r.Intn(len(gen.Methods))]
		}
		if b.r.Chance(1, 80) {
			o.BodyMax = 50000
		}
		mm := 5
		b.big(&o, &mm)
		b.msgStream(&c, 0, o, mm)
		if c.Msgs != nil && b.r.Chance(1, 12) {
			// a complete message of a dozen bytes (one-letter tokens, compact names): alone in the
			// buffer, or with the next message right behind it
			t := b.r.Pick([]string{"\r\n", "\n"})
			tiny := gen.MsgSpec{FLine: b.r.Pick([]string{"A b c", "X y Z", "M u V", "AB c d"}), FTerm: t, Blank: t}
			switch b.r.Intn(2) {
			case 0:
				body := b.g.Body(b.r.Intn(3))
				tiny.Hdrs = []gen.HdrSpec{{Name: "l", Val: strconv.Itoa(len(body)), Term: t, Kind: "content-length"}}
				tiny.Body = body
			default: // (a message has at least one header line)
				tiny.Hdrs = []gen.HdrSpec{{Name: b.r.Pick([]string{"x", "s", "k"}), Val: b.r.Pick([]string{"", "1", "y"}), Term: t}}
			}
			p := b.r.Intn(len(c.Msgs) + 1)
			c.Msgs = append(c.Msgs, gen.MsgSpec{})
			copy(c.Msgs[p+1:], c.Msgs[p:])
			c.Msgs[p] = tiny
		}
		end := b.pickEnd()
		if c.Msgs != nil && b.r.Chance(1, 20) {
			// the stream ends with a message whose empty line is a bare CR and whose body is empty,
			// and the receiver tells the parser that no more data will come
			last := &c.Msgs[len(c.Msgs)-1]
			last.Blank, last.Body = "\r", nil
			if k := last.FirstOf("content-length"); k >= 0 {
				if b.r.Chance(1, 2) || len(last.Hdrs) < 2 { // (a message keeps at least one header line)
					last.Hdrs[k].Val = "0"
				} else {
					last.Hdrs = append(last.Hdrs[:k:k], last.Hdrs[k+1:]...)
				}
			}
			if n := len(last.Hdrs); n > 0 && last.Hdrs[n-1].Term == "\r" {
				last.Hdrs[n-1].Term = "\r\n"
			}
			c.Cfg.EOFFlag = true
			end = b.r.PickInt(endEOFWith, endEOFAfter)
		}
		limitStream(&c)
		s := c.Stream()
		b.sc.Conns = append(b.sc.Conns, c)
		plans = append(plans, connPlan{conn: i, cuts: b.cuts(s, b.pickSched(len(s))), end: end, t0: int64(b.r.Intn(3000))})
	}
	b.schedule(plans)
	if b.r.Chance(1, 6) {
		// fault population: corruption taints the connection; the model is
		// switched off for it from the first corrupted byte on, the
		// crash monitor stays
		b.addCorruption(0, len(b.sc.Conns[0].Stream()), b.r.Range(1, 3))
	}
}

// C10: boundary numbers in every numeric position, cuts inside digit runs.
func (b *builder) buildC10() {
	var c Conn
	if b.r.Chance(1, 2) {
		c = Conn{Cfg: b.msgCfg(), Obj: -1}
		c.Cfg.HdrCap = 40
		c.Cfg.ConCap = 10
		o := gen.MsgOpts{Request: -1, CL: gen.CLAny, BodyMax: 40, WildNumbers: true, MaxHdrs: b.r.PickInt(0, 5, 10)}
		b.msgStream(&c, 5, o, 1)
	} else {
		kind := b.r.Pick([]string{"cseq", "uint", "clen", "expires", "nameaddr", "onecontact", "fromval", "fline", "cseq", "uint"})
		c = b.subConn(kind, 5)
	}
	limitStream(&c)
	s := c.Stream()
	b.sc.Conns = append(b.sc.Conns, c)
	b.schedule([]connPlan{{conn: 0, cuts: b.cuts(s, b.r.PickInt(schedOne, schedAdv, schedAdv, schedTrickle, schedSingle, schedLink)), end: b.r.PickInt(endNone, endEOFWith, endEOFAfter)}})
}

// C11: the same text behind junk / earlier messages vs at offset 0.
func (b *builder) buildC11() {
	var c Conn
	big := b.r.Chance(1, 40)
	if b.r.Chance(1, 2) {
		c = Conn{Cfg: b.msgCfg(), Obj: -1, Compact: false}
		o := gen.MsgOpts{Request: -1, CL: gen.CLAny, BodyMax: 200, WildNumbers: b.r.Chance(1, 6), MaxHdrs: b.r.PickInt(0, 4, 12)}
		mm := 4
		b.big(&o, &mm)
		b.msgStream(&c, 30, o, mm)
	} else {
		c = b.subConn(subKindsAll[b.r.Intn(len(subKindsAll))], 25)
	}
	s := c.Stream()
	switch {
	case big && len(s) < 60000:
		// start offsets up to the addressing limit; some end exactly at 65,535
		room := 65535 - len(s)
		k := b.r.Range(room-200, room)
		if b.r.Chance(1, 2) {
			k = room
		}
		if k < 1 {
			k = 1
		}
		c.Junk = b.g.Noise(k)
	case b.r.Chance(5, 6):
		c.Junk = b.junk(b.r.PickInt(1, 2, 8, 64, 300, 3000))
	default:
		c.Junk = nil // later pipelined messages still start at k > 0
	}
	limitStream(&c)
	s = c.Stream()
	b.sc.Conns = append(b.sc.Conns, c)
	b.schedule([]connPlan{{conn: 0, cuts: b.cuts(s, b.pickSched(len(s))), end: b.pickEnd()}})
}

// C12: one pooled object, a history of uses ending in every possible way.
func (b *builder) buildC12() {
	kind := "msg"
	if b.r.Chance(1, 2) {
		kind = subKindsAll[b.r.Intn(len(subKindsAll))]
	}
	var cfg sut.Cfg
	if kind == "msg" {
		cfg = b.msgCfg() // (includes the zero-value object that is never Init()ed: hdr_cap -2)
	} else {
		cfg = b.subCfg(kind)
	}
	uses := b.r.Range(2, 8)
	if b.tier == "thorough" && b.r.Chance(1, 4) {
		uses = b.r.Range(8, 30)
	}
	// large caller arrays with header blocks that fill them (array sizes beyond any
	// small constant a reset routine might assume)
	huge := kind == "msg" && b.r.Chance(1, 25)
	if huge {
		cfg.HdrCap = b.r.PickInt(66, 70, 100, 130, 260)
		uses = b.r.Range(2, 4)
	}
	resetBy := b.r.Intn(2)
	// two objects used side by side whose caller arrays come from one common pool: what the init
	// operation of one detaches may be attached to the other next
	nobj := 1
	if (kind == "msg" || kind == "headers" || kind == "contacts") && resetBy == sut.ByInit && cfg.HdrCap != -2 && b.r.Chance(1, 4) {
		nobj = 2
		b.sc.SharePool = true
	}
	var plans []connPlan
	t := int64(0)
	for i := 0; i < uses; i++ {
		var c Conn
		if kind == "msg" && b.r.Chance(1, 8) && !huge {
			// this use parses a bare header block into the message object (another exported entry point)
			c = Conn{Cfg: cfg, Clean: true}
			c.Cfg.Frag = true
			c.Raw = gen.HexBytes(b.g.SubText("headers", 0, 0))
		} else if kind == "msg" {
			c = Conn{Cfg: cfg}
			o := gen.MsgOpts{Request: -1, CL: gen.CLAny, BodyMax: 100, WildNumbers: b.r.Chance(1, 5), MaxHdrs: b.r.PickInt(0, 3, 8)}
			if huge {
				o.MaxHdrs, o.ManyHdrs, o.ManyMax = 0, true, cfg.HdrCap+40
			}
			b.msgStream(&c, 35, o, 3)
			if b.r.Chance(1, 5) {
				c.Junk = b.junk(10)
			}
		} else {
			c = b.subConn(kind, 30)
			c.Cfg = cfg
		}
		c.Obj = i % nobj
		c.ResetBy = resetBy
		if (kind == "msg" || kind == "headers") && b.r.Chance(1, 6) {
			c.Poke = 1 + b.r.Intn(60)
		}
		if resetBy == sut.ByInit && i > 0 && cfg.HdrCap != -2 && b.r.Chance(1, 2) {
			// the init operation may hand the object other arrays (or none) than it had before
			c.Cfg.HdrCap = b.capKnob(24)
			c.Cfg.ConCap = b.capKnob(6)
			c.Cfg.ParCap = b.capKnob(5)
			c.Cfg.Flags = b.sc.Conns[0].Cfg.Flags
			if kind == "msg" {
				c.Cfg.Flags = uint(b.r.Intn(4))
			}
		}
		c.Compact = b.r.Chance(1, 2)
		limitStream(&c)
		s := c.Stream()
		b.sc.Conns = append(b.sc.Conns, c)
		// uses are sequential in virtual time: one object, one user at a time
		p := connPlan{conn: i, cuts: b.cuts(s, b.pickSched(len(s))), end: b.r.PickInt(endNone, endAbort, endAbort, endEOFEarly, endEOFWith, endEOFAfter, endEOFEarly), t0: t}
		plans = append(plans, p)
		if i%nobj == nobj-1 {
			t += 100000000 // (uses of different objects overlap in time, uses of one object never do)
		}
	}
	b.schedule(plans)
}

// C13: small caller capacities next to an ample lock-step shadow.
func (b *builder) buildC13() {
	kind := b.r.Pick([]string{"msg", "msg", "msg", "headers", "contacts", "uriparams", "urihdrs", "hdrline"})
	var c Conn
	if kind == "msg" {
		c = Conn{Cfg: b.msgCfg(), Obj: -1, Compact: b.r.Chance(1, 2)}
		c.Cfg.HdrCap = b.r.PickInt(-2, -1, 0, 1, 2, 3, 5, 8, 12)
		c.Cfg.ConCap = b.r.PickInt(-1, 0, 0, 1, 2, 3)
		o := gen.MsgOpts{Request: -1, CL: gen.CLAny, BodyMax: 100, MaxHdrs: b.r.PickInt(0, 0, 10, 30)}
		mm := 2
		b.big(&o, &mm)
		b.msgStream(&c, 15, o, mm)
	} else {
		c = b.subConn(kind, 15)
		c.Cfg.HdrCap = b.r.PickInt(-1, 0, 1, 2, 4)
		c.Cfg.ConCap = b.r.PickInt(-1, 0, 1, 2)
		c.Cfg.ParCap = b.r.PickInt(-1, 0, 1, 2, 3)
	}
	c.ShadowAmple = true
	if b.r.Chance(1, 5) {
		c.Junk = b.junk(12)
	}
	if b.r.Chance(1, 4) {
		// a re-used object: the result must not depend on the capacities after a reset either,
		// whatever the earlier uses ended in (complete, failed, abandoned) - 2..4 uses in a row
		c.Obj = 0
		c.ResetBy = b.r.Intn(2)
		var plans []connPlan
		t := int64(0)
		uses := b.r.Range(2, 4)
		for i := 0; i < uses; i++ {
			u := c
			if i > 0 {
				u.Junk = nil
				if kind == "msg" {
					u.Msgs, u.Raw = nil, nil
					o := gen.MsgOpts{Request: -1, CL: gen.CLAny, BodyMax: 60, MaxHdrs: b.r.PickInt(0, 0, 10, 30)}
					b.msgStream(&u, 25, o, 2)
				} else {
					n := b.subConn(kind, 25)
					u.Raw, u.Clean = n.Raw, n.Clean
				}
			}
			limitStream(&u)
			s := u.Stream()
			b.sc.Conns = append(b.sc.Conns, u)
			plans = append(plans, connPlan{conn: i, cuts: b.cuts(s, b.pickSched(len(s))), end: b.r.PickInt(endAbort, endEOFEarly, endEOFWith, endNone, endAbort), t0: t})
			t += 100000000
		}
		b.schedule(plans)
		return
	}
	limitStream(&c)
	s := c.Stream()
	b.sc.Conns = append(b.sc.Conns, c)
	b.schedule([]connPlan{{conn: 0, cuts: b.cuts(s, b.pickSched(len(s))), end: b.pickEnd()}})
}

func (b *builder) note(f string, a ...interface{}) { b.sc.Note = fmt.Sprintf(f, a...) }
