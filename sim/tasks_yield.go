//go:build verifyield
// +build verifyield

package sim

import "github.com/intuitivelabs/sipsp"

// Only the yield-instrumented scratch copy of the library has SimYield.
func init() {
	yieldHook = func(f func()) { sipsp.SimYield = f }
}
