package sim

import (
	"verif/gen"
	"verif/sut"
)

// hostileBytes: what a hostile peer sends when it is not even trying.
func (b *builder) hostileBytes(maxn int) []byte {
	n := b.r.Range(0, maxn)
	switch b.r.Intn(6) {
	case 0:
		return b.g.Random(n)
	case 1:
		return b.g.Noise(n)
	case 2:
		m := b.g.Msg(gen.MsgOpts{Request: -1, CL: gen.CLAny, BodyMax: 100, WildNumbers: true, MaxHdrs: b.r.PickInt(0, 4, 20)})
		return b.g.Mutate(m.Render(), 6)
	case 3:
		m := b.g.Msg(gen.MsgOpts{Request: -1, CL: gen.CLAny, BodyMax: 100, WildNumbers: true})
		return b.g.Truncate(m.Render())
	case 4:
		// long runs of one delimiter class
		x := make([]byte, n)
		cs := []byte(" \t\r\n;,=<>\":\\0")
		c := cs[b.r.Intn(len(cs))]
		for i := range x {
			x[i] = c
			if b.r.Chance(1, 16) {
				x[i] = b.g.Noise(1)[0]
			}
		}
		return x
	}
	return b.g.Mutate(b.g.SubText(subKinds[b.r.Intn(len(subKinds))], b.g.TokFlags(), 8), 4)
}

var directFns = []string{"GetHdrType", "GetMethodNo", "URIParamResolve", "HdrTString", "GetHdrSigId", "ParseURI", "ParseURI", "AdjustOffs", "AdjustOffs",
	"URICmp", "URIRawCmp", "URIParamsEq", "URIHdrsEq", "LstEq", "ContainsIP4", "ContainsIP6", "ContainsIP6", "GetCallIDSig", "GetViaBrSig", "GetMsgSig", "SkipQuoted"}

func (b *builder) uriText() []byte {
	u := []byte(b.g.URI(false))
	switch b.r.Intn(5) {
	case 0:
		return b.g.Mutate(u, 3)
	case 1:
		return append([]byte(b.r.Pick([]string{"sip:", "sips:", "tel:", "SIP:", "sip", "si"})), b.g.Noise(b.r.Range(0, 30))...)
	}
	return u
}

func (b *builder) ipText() []byte {
	switch b.r.Intn(6) {
	case 0:
		return b.g.Noise(b.r.Range(0, 60))
	case 1:
		x := make([]byte, b.r.Range(0, 60))
		for i := range x {
			x[i] = "0123456789abcdefABCDEF:.[]x"[b.r.Intn(27)]
		}
		return x
	case 2:
		x := make([]byte, b.r.Range(0, 50))
		for i := range x {
			x[i] = "0129.:"[b.r.Intn(6)]
		}
		return x
	}
	return b.g.Mutate([]byte(b.g.CallIDVal()), 2)
}

func (b *builder) directTask() TaskSpec {
	fn := directFns[b.r.Intn(len(directFns))]
	t := TaskSpec{Fn: fn}
	switch fn {
	case "GetHdrType", "GetMethodNo", "URIParamResolve":
		switch b.r.Intn(5) {
		case 0:
			t.A = nil // the empty name
		case 1:
			t.A = b.g.Random(b.r.Range(0, 4))
		case 2:
			t.A = []byte(b.r.Pick([]string{"From", "f", "CALL-ID", "content-length", "INVITE", "ACK", "transport", "lr", "P-Asserted-Identity", "l", "m"}))
		default:
			t.A = b.g.Mutate([]byte(b.r.Pick([]string{"From", "To", "Via", "Contact", "REGISTER", "maddr", "Max-Forwards"})), 2)
		}
	case "HdrTString":
		t.N1, t.N2, t.N3 = b.r.Intn(70000), b.r.Intn(300), b.r.Intn(300)-10
	case "GetHdrSigId":
		t.N1, t.N2 = b.r.Intn(40), b.r.Intn(5)
		if b.r.Chance(1, 5) {
			t.N1 = b.r.Intn(70000)
		}
	case "ParseURI":
		t.A = b.uriText()
	case "AdjustOffs":
		t.A = []byte(b.g.URI(false))
		if b.r.Chance(1, 3) {
			// empty trailing components: the URI ends in a delimiter
			t.A = append(t.A, b.r.Pick([]string{";", "?", ":", ";x=", "?h=", ":5060;", ";lr?"})...)
		} else if b.r.Chance(1, 4) {
			t.A = b.uriText()
		}
		t.N1 = b.r.Intn(300)
		t.N2 = len(t.A) + b.r.Range(-len(t.A), 6)
		if b.r.Chance(1, 20) {
			t.N1 = 65535 - t.N2
		}
	case "URICmp", "URIRawCmp":
		t.A = b.uriText()
		if b.r.Chance(1, 2) {
			t.B = b.g.Mutate(t.A, 2)
		} else {
			t.B = b.uriText()
		}
		t.N1 = b.r.Intn(64)
	case "URIParamsEq", "URIHdrsEq", "LstEq":
		f := uint(gen.FSemiSep)
		if fn == "URIHdrsEq" || b.r.Chance(1, 2) {
			f = gen.FAmpSep
		}
		t.A = b.g.Mutate([]byte(b.g.ParamList(f)), 2)
		t.B = b.g.Mutate([]byte(b.g.ParamList(f)), 2)
		if b.r.Chance(1, 3) {
			t.B = append([]byte(nil), t.A...)
		}
		t.N1, t.N2, t.N3 = b.r.Intn(4), b.r.Intn(4), b.r.Intn(64)
		if b.r.Chance(1, 10) {
			// more parameters than the comparison's internal scratch space
			var x []byte
			for i := 0; i < b.r.Range(95, 130); i++ {
				x = append(x, []byte("p"+string(rune('a'+i%26))+"=1;")...)
			}
			t.A, t.B = x, append([]byte(nil), x...)
			t.N1, t.N2 = 0, 0
		}
	case "ContainsIP4", "ContainsIP6":
		t.A = b.ipText()
		if b.r.Chance(1, 2) {
			// a real address somewhere in the text
			ip := b.r.Pick([]string{"10.0.0.1", "192.168.255.254", "2001:db8::1", "[2001:db8:0:1:2:3:4:5]", "fe80::1:2", "::1", "1:2:3:4:5:6:7:8"})
			t.A = append(append(b.g.Noise(b.r.Intn(6)), ip...), b.g.Noise(b.r.Intn(6))...)
		}
		t.N1 = b.r.Intn(200)
	case "GetCallIDSig":
		t.A = b.ipText()
		if b.r.Chance(1, 2) {
			t.A = []byte(b.g.CallIDVal())
		}
		if b.r.Chance(1, 20) {
			t.A = b.g.Noise(b.r.Range(900, 1200))
		}
	case "GetViaBrSig":
		t.A = []byte(b.g.ViaVal())
		if b.r.Chance(1, 2) {
			t.A = b.g.Mutate(t.A, 3)
		}
		if b.r.Chance(1, 4) {
			// parameters the token parser rejects in front of the branch, followed by quotes and
			// escapes that are open, closed or cut at the very end of the value
			v := "SIP/2.0/UDP " + b.g.Host() + b.r.Pick([]string{";x=a=b", ";a b=c", ";=v", ";k=v=w", ";pad=YWI="})
			for k := b.r.Intn(3); k >= 0; k-- {
				v += b.r.Pick([]string{"\"q", "\"q\\", "\"q\\\"", "\"", ";y=\"a;b\"", ";branch=z9hG4bKx.y", ";z=\"\\", "\\", ",SIP/2.0/UDP h;branch=1", ";w=\"a,b", " "})
			}
			t.A = []byte(v)
		}
	case "GetMsgSig":
		t.A = b.hostileBytes(600)
		t.N1, t.N2, t.N3 = b.r.Intn(4), b.r.PickInt(-2, -1, 0, 1, 3, 8, 30), b.r.PickInt(-1, 0, 1, 4)
	case "SkipQuoted":
		t.A = b.hostileBytes(80)
		t.N1 = b.r.Intn(len(t.A) + 1)
	}
	return t
}

func (b *builder) streamTask() TaskSpec {
	var cfg sut.Cfg
	var txt []byte
	if b.r.Chance(1, 2) {
		cfg = b.msgCfg()
		txt = b.hostileBytes(800)
	} else {
		kind := subKinds[b.r.Intn(len(subKinds))]
		cfg = b.subCfg(kind)
		txt = b.g.SubText(kind, cfg.Flags, cfg.HType)
		if b.r.Chance(1, 2) {
			txt = b.g.Mutate(txt, 4)
		}
	}
	t := TaskSpec{Fn: "stream", Cfg: &cfg, A: txt, EOF: b.r.Chance(1, 2)}
	if len(txt) > 0 {
		t.N1 = b.r.PickInt(0, 0, 0, b.r.Intn(len(txt)+1)) // start offset anywhere in the buffer
	}
	t.Cuts = b.cuts(txt, b.r.PickInt(schedOne, schedAdv, schedLink, schedSingle))
	if len(t.Cuts) == 0 {
		t.Cuts = []int{len(txt)}
	}
	return t
}

// C04TasksOnly restricts the C04 population to multi-task worlds (used by the
// yield-build and race-detector passes, whose only subject is isolation).
var C04TasksOnly bool

// C04: hostile peers on every driver, direct calls of every exported
// function on arbitrary bytes, and interleaved independent tasks.
func (b *builder) buildC04() {
	if C04TasksOnly || b.r.Chance(2, 5) {
		// task world: 1..4 independent callers
		n := b.r.PickInt(1, 2, 2, 3, 4)
		if C04TasksOnly {
			n = b.r.PickInt(2, 2, 3, 4)
		}
		for i := 0; i < n; i++ {
			if b.r.Chance(1, 3) {
				b.sc.Tasks = append(b.sc.Tasks, b.streamTask())
			} else {
				b.sc.Tasks = append(b.sc.Tasks, b.directTask())
			}
		}
		for i := b.r.PickInt(0, 5, 40, 40, 400); i > 0; i-- {
			b.sc.Sched = append(b.sc.Sched, b.r.Intn(1<<16))
		}
		return
	}
	// hostile connections through the ordinary receiver
	nc := b.r.PickInt(1, 1, 2, 3)
	var plans []connPlan
	for i := 0; i < nc; i++ {
		var c Conn
		if b.r.Chance(1, 2) {
			c = Conn{Cfg: b.msgCfg(), Obj: -1, Compact: b.r.Chance(1, 2)}
			c.Raw = b.hostileBytes(b.r.PickInt(40, 300, 1500))
			if b.r.Chance(1, 50) {
				// oversize: up to the documented limit
				m := b.g.Msg(gen.MsgOpts{Request: -1, CL: gen.CLExact, BodyMax: 64000, MaxHdrs: 0})
				c.Raw = m.Render()
			}
		} else {
			c = b.subConn(subKindsAll[b.r.Intn(len(subKindsAll))], 70)
			if c.Cfg.Kind == "nameaddr" && b.r.Chance(1, 2) {
				// any header kind value a caller might pass, known or not
				c.Cfg.HType = b.r.PickInt(0, 3, 5, 9, 10, 14, 15, 16, 255, 1000, 65535)
			}
		}
		if b.r.Chance(1, 3) {
			c.Junk = b.junk(60)
		}
		if b.r.Chance(1, 3) {
			c.Obj = i // pooled object, reset between units
			c.ResetBy = b.r.Intn(2)
		}
		limitStream(&c)
		s := c.Stream()
		b.sc.Conns = append(b.sc.Conns, c)
		plans = append(plans, connPlan{conn: i, cuts: b.cuts(s, b.pickSched(len(s))), end: b.pickEnd(), t0: int64(b.r.Intn(5000))})
	}
	b.schedule(plans)
	if b.r.Chance(1, 3) {
		b.addCorruption(0, len(b.sc.Conns[0].Stream()), b.r.Range(1, 4))
	}
}
