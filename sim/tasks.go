package sim

import (
	"fmt"
	"runtime/debug"
	"sync"

	"github.com/intuitivelabs/sipsp"

	"verif/sut"
)

// Tasks: the isolation clause of C04. A task is an independent caller working
// on its own objects and buffers: either a connection handler feeding one
// parser object chunk by chunk, or a direct call of an exported compare /
// lookup / relocation / signature function. Every task is first run alone;
// then all tasks run interleaved under the scenario's schedule and every
// task's observable results must be identical to its solo results.

type TaskSpec struct {
	Fn   string   `json:"fn"`
	A    HexBytes `json:"a,omitempty"`
	B    HexBytes `json:"b,omitempty"`
	N1   int      `json:"n1,omitempty"`
	N2   int      `json:"n2,omitempty"`
	N3   int      `json:"n3,omitempty"`
	Cfg  *sut.Cfg `json:"cfg,omitempty"`  // Fn=="stream"
	Cuts []int    `json:"cuts,omitempty"` // Fn=="stream": delivery boundaries
	EOF  bool     `json:"eof,omitempty"`
}

// Interleaving modes.
const (
	ModeCalls = iota // call-level: the schedule picks whose next step (library call) runs
	ModeYield        // loop-level: tasks are goroutines passing a baton at the yield points of the instrumented build
	ModeRace         // free-running goroutines (race-detector pass)
)

var TaskMode = ModeCalls

// yieldHook is set by the verifyield build (tasks_yield.go).
var yieldHook func(f func())

type taskRun struct {
	spec  *TaskSpec
	res   []int64
	step  int
	done  bool
	pan   string
	viol  string
	drv   sut.Driver
	cont  int
	start int
	rec   sut.Rec
	yield func()
}

func (t *taskRun) out(v ...int64) { t.res = append(t.res, v...) }

func hashBytes(b []byte) int64 {
	var h uint64 = 14695981039346656037
	for _, c := range b {
		h = (h ^ uint64(c)) * 1099511628211
	}
	return int64(h)
}

func b2i(b bool) int64 {
	if b {
		return 1
	}
	return 0
}

// steps returns how many steps the task has.
func (t *taskRun) steps() int {
	if t.spec.Fn == "stream" {
		n := len(t.spec.Cuts)
		if t.spec.EOF {
			n++
		}
		return n
	}
	return 1
}

// runStep executes step k under recover.
func (t *taskRun) runStep() {
	defer func() {
		if r := recover(); r != nil {
			t.pan = fmt.Sprintf("%v | %s", r, topFrames(string(debug.Stack())))
			t.done = true
		}
	}()
	if t.spec.Fn == "stream" {
		t.streamStep()
	} else {
		t.direct()
		t.done = true
	}
	t.step++
	if t.step >= t.steps() {
		t.done = true
	}
}

func (t *taskRun) streamStep() {
	s := t.spec
	if t.drv == nil {
		t.drv = sut.New(*s.Cfg)
		t.start = s.N1
		if t.start > len(s.A) {
			t.start = len(s.A)
		}
		t.cont = t.start
	}
	L := len(s.A)
	eof := false
	if t.step < len(s.Cuts) {
		L = s.Cuts[t.step]
		if L > len(s.A) {
			L = len(s.A)
		}
	} else {
		eof = true
	}
	if L < t.cont {
		return
	}
	buf := s.A[:L]
	for guard := 0; guard < 64; guard++ {
		prev := t.cont
		ret, err := t.drv.Call(buf, t.cont, eof)
		t.out(int64(ret), int64(err))
		if ret < 0 || ret > len(buf) {
			t.viol = fmt.Sprintf("offset-range: %s returned %d for a buffer of %d", s.Cfg.Kind, ret, len(buf))
			t.done = true
			return
		}
		if ret < prev && !sut.IsError(err) {
			t.viol = fmt.Sprintf("offset-backwards: %s returned %d < %d with verdict %d", s.Cfg.Kind, ret, prev, err)
			t.done = true
			return
		}
		t.rec.Reset(0, len(buf))
		t.drv.Snap(&t.rec, buf)
		if t.rec.OOB != "" {
			t.viol = "field-deref: " + t.rec.OOB
			t.done = true
			return
		}
		var h uint64 = 1
		for _, v := range t.rec.V {
			h = h*1099511628211 ^ uint64(v)
		}
		t.out(int64(h))
		if err == sipsp.ErrHdrMoreBytes {
			t.cont = ret
			return
		}
		if t.drv.Continues(err) && ret < len(buf) {
			t.drv = sut.New(*s.Cfg)
			t.start, t.cont = ret, ret
			continue
		}
		t.done = true
		return
	}
}

func fieldOf(n1, n2 int) sipsp.PField {
	return sipsp.PField{Offs: sipsp.OffsT(n1), Len: sipsp.OffsT(n2)}
}

func outURI(t *taskRun, u *sipsp.PsipURI, buf []byte) {
	var r sut.Rec
	r.Reset(0, len(buf))
	sut.SnapURI(&r, u)
	t.out(r.V...)
	if r.OOB != "" {
		t.viol = "field-deref: " + r.OOB
	}
}

// direct runs one direct-call task.
func (t *taskRun) direct() {
	s := t.spec
	// inputs live in slices of exactly their length (no spare capacity behind them)
	a := append(make([]byte, 0, len(s.A)), s.A...)
	b := append(make([]byte, 0, len(s.B)), s.B...)
	switch s.Fn {
	case "GetHdrType":
		t.out(int64(sipsp.GetHdrType(a)))
	case "GetMethodNo":
		m := sipsp.GetMethodNo(a)
		t.out(int64(m), hashBytes(m.Name()), int64(len(m.String())))
	case "URIParamResolve":
		t.out(int64(sipsp.URIParamResolve(a)))
	case "HdrTString":
		t.out(int64(len(sipsp.HdrT(s.N1).String())), int64(len(sipsp.SIPMethod(s.N2).String())), int64(len(sipsp.URIScheme(s.N3).String())))
	case "GetHdrSigId":
		id, e := sipsp.GetHdrSigId(sipsp.Hdr{Type: sipsp.HdrT(s.N1), Name: fieldOf(0, s.N2)})
		t.out(int64(id), int64(e))
	case "ParseURI":
		var u sipsp.PsipURI
		e, o := sipsp.ParseURI(a, &u)
		t.out(int64(e), int64(o))
		if o < 0 || o > len(a) {
			t.viol = fmt.Sprintf("offset-range: ParseURI returned position %d for %d bytes", o, len(a))
		}
		if e == 0 {
			outURI(t, &u, a)
			l, sh := u.Long(), u.Short()
			t.out(int64(l.Offs), int64(l.Len), int64(sh.Offs), int64(sh.Len), hashBytes(u.Flat(a)))
			u.Truncate()
			outURI(t, &u, a)
		}
	case "AdjustOffs":
		var u sipsp.PsipURI
		if e, _ := sipsp.ParseURI(a, &u); e == 0 {
			np := fieldOf(s.N1, s.N2)
			ok := u.AdjustOffs(np)
			t.out(b2i(ok))
			if ok {
				// the moved URI must be readable from a buffer that holds the text at the new place
				nb := make([]byte, s.N1+s.N2)
				copy(nb[s.N1:], a)
				outURI(t, &u, nb)
				l := u.Long()
				t.out(int64(l.Offs), int64(l.Len))
			}
		}
	case "URICmp":
		var u1, u2 sipsp.PsipURI
		e1, _ := sipsp.ParseURI(a, &u1)
		e2, _ := sipsp.ParseURI(b, &u2)
		t.out(int64(e1), int64(e2))
		if e1 == 0 && e2 == 0 {
			t.out(b2i(sipsp.URICmp(&u1, a, &u2, b, sipsp.URICmpFlags(s.N1))), b2i(sipsp.URICmpShort(&u1, a, &u2, b, sipsp.URICmpFlags(s.N1))))
		}
	case "URIRawCmp":
		ok, e, w := sipsp.URIRawCmp(a, b, sipsp.URICmpFlags(s.N1))
		t.out(b2i(ok), int64(e), int64(w))
		// (result structures that were used for another comparison before: what comes back must not
		// depend on what they held)
		var r1, r2 sipsp.PsipURI
		if s.N1%2 == 1 {
			sipsp.URIParseCmp(b, a, sipsp.URICmpFlags(s.N1), &r1, &r2)
			var x1, x2 sipsp.PsipURI
			okx, ex, wx := sipsp.URIParseCmp(a, b, sipsp.URICmpFlags(s.N1), &x1, &x2)
			oky, ey, wy := sipsp.URIParseCmp(a, b, sipsp.URICmpFlags(s.N1), &r1, &r2)
			if okx != oky || ex != ey || wx != wy || (ex == 0 && (x1 != r1 || x2 != r2)) {
				t.viol = fmt.Sprintf("influence: URIParseCmp into result structures used before = (%v,%d,%d), into new ones = (%v,%d,%d) (or the returned URIs differ)", oky, ey, wy, okx, ex, wx)
			}
		}
		ok, e, w = sipsp.URIParseCmp(a, b, sipsp.URICmpFlags(s.N1), &r1, &r2)
		t.out(b2i(ok), int64(e), int64(w))
		// the parsed URIs it hands back are reported fields too: each must be readable against the
		// text it was parsed from
		if e != 0 {
			break // a URI that failed to parse is not handed back
		}
		outURI(t, &r1, a)
		if t.viol == "" {
			outURI(t, &r2, b)
			if t.viol != "" {
				t.viol += " (second URI returned by URIParseCmp, read against the second text)"
			}
		}
	case "URIParamsEq":
		o1, o2 := clampOffs(s.N1, len(a)), clampOffs(s.N2, len(b))
		ok, e := sipsp.URIParamsEq(a, o1, b, o2)
		t.out(b2i(ok), int64(e))
	case "URIHdrsEq":
		o1, o2 := clampOffs(s.N1, len(a)), clampOffs(s.N2, len(b))
		ok, e := sipsp.URIHdrsEq(a, o1, b, o2)
		t.out(b2i(ok), int64(e))
	case "LstEq":
		// parse with caller arrays of capacity N3, then compare the lists
		var l1, l2 sipsp.URIParamsLst
		c1, c2 := s.N3%8, (s.N3/8)%8 // the two lists need not have arrays of the same size
		l1.Init(make([]sipsp.URIParam, c1))
		l2.Init(make([]sipsp.URIParam, c2))
		f := sipsp.POptTokURIParamF | sipsp.POptInputEndF
		_, _, e1 := sipsp.ParseAllURIParams(a, clampOffs(s.N1, len(a)), &l1, f)
		_, _, e2 := sipsp.ParseAllURIParams(b, clampOffs(s.N2, len(b)), &l2, f)
		t.out(int64(e1), int64(e2), b2i(sipsp.URIParamsLstEq(&l1, a, &l2, b)))
		var h1, h2 sipsp.URIHdrsLst
		h1.Init(make([]sipsp.URIHdr, c1))
		h2.Init(make([]sipsp.URIHdr, c2))
		g := sipsp.POptTokURIHdrF | sipsp.POptInputEndF
		_, _, e1 = sipsp.ParseAllURIHdrs(a, clampOffs(s.N1, len(a)), &h1, g)
		_, _, e2 = sipsp.ParseAllURIHdrs(b, clampOffs(s.N2, len(b)), &h2, g)
		t.out(int64(e1), int64(e2), b2i(sipsp.URIHdrsLstEq(&h1, a, &h2, b)))
	case "ContainsIP4":
		var dst [8]byte
		d := dst[:s.N1%9]
		if s.N1%9 == 0 {
			d = nil
		}
		ok, o, l := sipsp.ContainsIP4(a, d)
		t.out(b2i(ok), int64(o), int64(l), hashBytes(dst[:]))
		if ok && (o < 0 || o+l > len(a)) {
			t.viol = fmt.Sprintf("offset-range: ContainsIP4 span (%d,%d) outside %d bytes", o, l, len(a))
		}
		ok2, n, e := sipsp.IP4Prefix(a, d)
		t.out(b2i(ok2), int64(n), int64(e))
		if n < 0 || n > len(a) {
			t.viol = fmt.Sprintf("offset-range: IP4Prefix position %d outside %d bytes", n, len(a))
		}
	case "ContainsIP6":
		var dst [24]byte
		// caller-supplied destination of any length (nil, too short, exact, longer)
		d := dst[:s.N1%25]
		if s.N1%25 == 0 {
			d = nil
		}
		ok, o, l := sipsp.ContainsIP6(a, d)
		t.out(b2i(ok), int64(o), int64(l), hashBytes(dst[:]))
		if ok && (o < 0 || o+l > len(a)) {
			t.viol = fmt.Sprintf("offset-range: ContainsIP6 span (%d,%d) outside %d bytes", o, l, len(a))
		}
		ok2, n, e := sipsp.IP6Prefix(a, d)
		t.out(b2i(ok2), int64(n), int64(e))
		if n < 0 || n > len(a) {
			t.viol = fmt.Sprintf("offset-range: IP6Prefix position %d outside %d bytes", n, len(a))
		}
	case "GetCallIDSig":
		sg, l := sipsp.GetCallIDSig(a)
		t.out(int64(sg), int64(l))
	case "GetViaBrSig":
		sg, l := sipsp.GetViaBrSig(a)
		t.out(int64(sg), int64(l))
	case "GetMsgSig":
		// parse a (hostile) message one-shot with the given capacities, then fingerprint it
		cfg := sut.Cfg{Kind: "msg", Flags: uint(s.N1 & 3), HdrCap: s.N2, ConCap: s.N3, EOFFlag: true}
		d := sut.New(cfg).(*sut.MsgD)
		ret, err := d.Call(a, 0, true)
		t.out(int64(ret), int64(err))
		if err == 0 {
			// the signature is documented for successfully parsed messages only
			sg, e := sipsp.GetMsgSig(&d.M)
			str := sg.String()
			t.out(int64(e), int64(sg.HdrSigLen), hashBytes([]byte(str)))
		}
	case "SkipQuoted":
		o := clampOffs(s.N1, len(a))
		n, e := sipsp.SkipQuoted(a, o)
		t.out(int64(n), int64(e))
		if n < 0 || n > len(a) {
			t.viol = fmt.Sprintf("offset-range: SkipQuoted returned %d for %d bytes", n, len(a))
		}
	default:
		panic("unknown task fn " + s.Fn)
	}
}

func clampOffs(o, n int) int {
	if o < 0 {
		return 0
	}
	if o > n {
		return n
	}
	return o
}

func newRuns(sc *Scenario) []*taskRun {
	rs := make([]*taskRun, len(sc.Tasks))
	for i := range sc.Tasks {
		rs[i] = &taskRun{spec: &sc.Tasks[i]}
	}
	return rs
}

func sameRes(a, b []int64) bool { return sut.EqualV(a, b) }

// ExecTasks runs the task scenario: solo first, then interleaved.
func ExecTasks(sc *Scenario, st *Stats) *Violation {
	solo := newRuns(sc)
	for i, t := range solo {
		for !t.done {
			t.runStep()
		}
		if t.pan != "" {
			return &Violation{Prop: "C04", Monitor: "panic", Conn: i, Detail: fmt.Sprintf("task %d %s panicked: %s", i, taskName(t.spec), t.pan)}
		}
		if t.viol != "" {
			return &Violation{Prop: "C04", Monitor: "task-" + monitorOf(t.viol), Conn: i, Detail: fmt.Sprintf("task %d %s: %s", i, taskName(t.spec), t.viol)}
		}
		if st != nil {
			st.Drivers["task:"+taskName(t.spec)]++
			st.Calls += int64(len(t.res))
		}
	}
	if len(sc.Tasks) < 2 {
		return nil
	}
	var inter []*taskRun
	switch TaskMode {
	case ModeCalls:
		inter = runInterleavedCalls(sc)
	case ModeYield:
		inter = runInterleavedYield(sc)
	case ModeRace:
		inter = runFree(sc)
	}
	if st != nil {
		var h uint64 = 7
		for i, d := range sc.Sched {
			if i >= 16 {
				break
			}
			h = h*1099511628211 ^ uint64(d%len(sc.Tasks))
		}
		st.Inter[h^uint64(len(sc.Tasks))<<56] = struct{}{}
		st.fault("task-interleaving")
	}
	for i := range inter {
		if inter[i].pan != "" && solo[i].pan == "" {
			return &Violation{Prop: "C04", Monitor: "isolation", Conn: i, Detail: fmt.Sprintf("task %d %s panicked only when interleaved: %s", i, taskName(inter[i].spec), inter[i].pan)}
		}
		if !sameRes(inter[i].res, solo[i].res) {
			return &Violation{Prop: "C04", Monitor: "isolation", Conn: i,
				Detail: fmt.Sprintf("task %d %s gives different results when interleaved with %d other tasks (mode %d): %d vs %d observations, first difference at %d",
					i, taskName(inter[i].spec), len(sc.Tasks)-1, TaskMode, len(inter[i].res), len(solo[i].res), firstDiff(inter[i].res, solo[i].res))}
		}
	}
	return nil
}

func monitorOf(v string) string {
	for i := 0; i < len(v); i++ {
		if v[i] == ':' {
			return v[:i]
		}
	}
	return "check"
}

func firstDiff(a, b []int64) int {
	for i := 0; i < len(a) && i < len(b); i++ {
		if a[i] != b[i] {
			return i
		}
	}
	if len(a) < len(b) {
		return len(a)
	}
	return len(b)
}

func taskName(s *TaskSpec) string {
	if s.Fn == "stream" && s.Cfg != nil {
		return "stream/" + s.Cfg.Kind
	}
	return s.Fn
}

// runInterleavedCalls: the schedule decides whose next step runs.
func runInterleavedCalls(sc *Scenario) []*taskRun {
	rs := newRuns(sc)
	k := 0
	for {
		var live []int
		for i, t := range rs {
			if !t.done {
				live = append(live, i)
			}
		}
		if len(live) == 0 {
			break
		}
		pick := 0
		if k < len(sc.Sched) {
			pick = sc.Sched[k] % len(live)
			if pick < 0 {
				pick = -pick
			}
		}
		k++
		rs[live[pick]].runStep()
	}
	return rs
}

// runFree: every task on its own goroutine, no control over the interleaving
// (race-detector pass; results must still equal the solo results).
func runFree(sc *Scenario) []*taskRun {
	rs := newRuns(sc)
	var wg sync.WaitGroup
	for _, t := range rs {
		wg.Add(1)
		go func(t *taskRun) {
			defer wg.Done()
			for !t.done {
				t.runStep()
			}
		}(t)
	}
	wg.Wait()
	return rs
}

// runInterleavedYield: tasks are goroutines, exactly one holds the baton. At
// every yield point of the instrumented library build the next schedule entry
// decides who continues. Without the instrumented build it degenerates to
// switching between steps only.
func runInterleavedYield(sc *Scenario) []*taskRun {
	rs := newRuns(sc)
	n := len(rs)
	baton := make([]chan struct{}, n)
	for i := range baton {
		baton[i] = make(chan struct{}, 1)
	}
	finished := make(chan struct{})
	var mu sync.Mutex // protects k/cur/alive bookkeeping; held only by the baton holder
	k := 0
	cur := -1
	alive := make([]bool, n)
	for i := range alive {
		alive[i] = true
	}
	nextOf := func(self int, selfAlive bool) int {
		var live []int
		for i := range alive {
			if alive[i] {
				live = append(live, i)
			}
		}
		if len(live) == 0 {
			return -1
		}
		pick := 0
		if k < len(sc.Sched) {
			pick = sc.Sched[k] % len(live)
			if pick < 0 {
				pick = -pick
			}
		} else if selfAlive {
			// schedule exhausted: keep running the current task to completion
			return self
		}
		k++
		return live[pick]
	}
	yield := func() {
		mu.Lock()
		self := cur
		nx := nextOf(self, true)
		if nx == self || nx < 0 {
			mu.Unlock()
			return
		}
		cur = nx
		mu.Unlock()
		baton[nx] <- struct{}{}
		<-baton[self]
	}
	if yieldHook != nil {
		yieldHook(yield)
		defer yieldHook(nil)
	}
	for i, t := range rs {
		go func(i int, t *taskRun) {
			<-baton[i]
			for !t.done {
				t.runStep()
				if !t.done {
					yield()
				}
			}
			mu.Lock()
			alive[i] = false
			nx := nextOf(i, false)
			if nx < 0 {
				mu.Unlock()
				close(finished)
				return
			}
			cur = nx
			mu.Unlock()
			baton[nx] <- struct{}{}
		}(i, t)
	}
	mu.Lock()
	first := nextOf(-1, false)
	cur = first
	mu.Unlock()
	if first >= 0 {
		baton[first] <- struct{}{}
		<-finished
	}
	return rs
}
