package sim

import (
	"encoding/json"
	"io/ioutil"

	"verif/gen"
	"verif/sut"
)

// HexBytes is a byte string that is written as hex in replay files.
type HexBytes = gen.HexBytes

// Event kinds. The event list of a scenario is totally ordered; executing it
// draws nothing from any PRNG.
const (
	EvDeliver = "deliver" // conn's buffer grows to Upto stream bytes; EOF: the peer's FIN arrives with it
	EvEOF     = "eof"     // clean end of stream, no new bytes
	EvAbort   = "abort"   // connection reset: receiver drops the connection, object goes back unfinished
	EvCorrupt = "corrupt" // in-flight corruption of a not yet delivered byte: stream[Pos] = Byte
)

type Event struct {
	Op   string `json:"op"`
	Conn int    `json:"conn"`
	Upto int    `json:"upto,omitempty"`
	EOF  bool   `json:"eof,omitempty"`
	Pos  int    `json:"pos,omitempty"`
	Byte byte   `json:"byte,omitempty"`
	At   int64  `json:"at,omitempty"` // virtual time (us); informational - the order of the list is what counts
}

// Conn is one simulated connection (or datagram, or direct use of a
// sub-parser): what the peer sends and how the receiver is configured.
type Conn struct {
	Cfg sut.Cfg `json:"cfg"`
	// Exactly one of Raw / Msgs gives the bytes the peer sends. Msgs are
	// structured messages that carry ground truth for the sender-side
	// reference models; Raw carries none.
	Raw  HexBytes      `json:"raw,omitempty"`
	Msgs []gen.MsgSpec `json:"msgs,omitempty"`
	Junk HexBytes      `json:"junk,omitempty"` // bytes already in the receive buffer in front of the stream
	// Receiver policies.
	Compact bool `json:"compact,omitempty"` // buffer policy: drop consumed bytes after each unit (else keep appending)
	// Realloc: the receiver's buffer lives in a new backing array (of exactly the needed size) at
	// every call, as a growing / reallocating stream buffer does; the library may keep offsets, not
	// slices of earlier calls.
	Realloc bool `json:"realloc,omitempty"`
	Obj     int  `json:"obj"`                // -1: brand-new object per unit; >=0: pooled object slot, reset between units and between connections
	ResetBy int  `json:"reset_by,omitempty"` // sut.ByReset / sut.ByInit
	Group   int  `json:"group,omitempty"`    // C19: connections of one group carry variants of one request
	// Clean: the stream is unmodified generator output (no hostile transform). Oracles that
	// re-read text independently (C10's parameter scan) assert only on clean streams.
	Clean   bool   `json:"clean,omitempty"`
	Variant string `json:"variant,omitempty"` // C19: how this variant differs (informational)
	// Lock-step shadows to run next to the receiver (DESIGN.md 6.6).
	ShadowAmple bool `json:"shadow_ample,omitempty"` // C13
	// Poke: before a used object is reset / initialised again, user code registers a first-of-type
	// header itself through the exported HdrLst.SetHdr (kind = 1 + Poke%13); 0 = no.
	Poke int `json:"poke,omitempty"`
	// EarlyEOF: the call with this number (1-based, per unit) passes the end-of-input flag although
	// the stream goes on afterwards (a receiver that guessed wrong); 0 = never.
	EarlyEOF int `json:"early_eof,omitempty"`
}

type Scenario struct {
	Prop   string  `json:"prop"`
	Seed   uint64  `json:"seed"`
	Index  uint64  `json:"index"`
	Note   string  `json:"note,omitempty"`
	Conns  []Conn  `json:"conns"`
	Events []Event `json:"events"`
	// C03: continuations the simulator forks in after a definitive verdict.
	Forks []HexBytes `json:"forks,omitempty"`
	// C04 isolation: task interleaving decisions (see tasks.go).
	Tasks []TaskSpec `json:"tasks,omitempty"`
	Sched []int      `json:"sched,omitempty"`
	// SharePool: the receiver's pooled objects draw their caller arrays from one common pool: what
	// the init operation of one object detaches may be attached to another object next.
	SharePool bool `json:"share_pool,omitempty"`
}

// Stream renders the bytes conn c's peer sends.
func (c *Conn) Stream() []byte {
	if c.Msgs != nil {
		var b []byte
		for i := range c.Msgs {
			b = append(b, c.Msgs[i].Render()...)
		}
		return b
	}
	return append([]byte(nil), c.Raw...)
}

func (s *Scenario) Clone() *Scenario {
	b, _ := json.Marshal(s)
	var n Scenario
	_ = json.Unmarshal(b, &n)
	return &n
}

// Replay is what a replay file holds.
type Replay struct {
	Property    string    `json:"property"`
	Monitor     string    `json:"monitor"`
	Detail      string    `json:"detail"`
	Key         string    `json:"key"` // violation class + locus, must reproduce exactly
	Seed        uint64    `json:"seed"`
	Index       uint64    `json:"index"`
	Minimised   bool      `json:"minimised"`
	ShrinkSteps int       `json:"shrink_steps"`
	Scenario    *Scenario `json:"scenario"`
	// Prelude: worlds the same process executed before this one. Only present when the violation
	// does not reproduce from the scenario alone - i.e. when independent worlds influence one
	// another through package-level state of the library (itself a C04 isolation violation).
	Prelude []*Scenario `json:"prelude,omitempty"`
}

func WriteReplay(path string, r *Replay) error {
	b, err := json.MarshalIndent(r, "", " ")
	if err != nil {
		return err
	}
	return ioutil.WriteFile(path, b, 0644)
}

func ReadReplay(path string) (*Replay, error) {
	b, err := ioutil.ReadFile(path)
	if err != nil {
		return nil, err
	}
	var r Replay
	if err := json.Unmarshal(b, &r); err != nil {
		return nil, err
	}
	return &r, nil
}
