package sim

import (
	"strconv"
	"strings"

	"verif/gen"
	"verif/sut"
)

func cloneMsg(m gen.MsgSpec) gen.MsgSpec {
	n := m
	n.Hdrs = append([]gen.HdrSpec(nil), m.Hdrs...)
	n.Body = append(gen.HexBytes(nil), m.Body...)
	return n
}

var fingerprinted = map[string]bool{"call-id": true, "contact": true, "cseq": true, "from": true,
	"max-forwards": true, "to": true, "via": true, "user-agent": true}

// plainHdr makes a header line without odd whitespace.
func plainHdr(name, val string) gen.HdrSpec {
	return gen.HdrSpec{Name: name, Lead: " ", Val: val, Term: "\r\n", Kind: gen.KnownKind(name)}
}

// fixCL makes the (first) Content-Length agree with the body again.
func fixCL(m *gen.MsgSpec) {
	if i := m.FirstOf("content-length"); i >= 0 {
		m.Hdrs[i].Val = strconv.Itoa(len(m.Body))
	}
}

// decoy: a value for a header that is NOT fingerprinted but looks like the text the character-class
// parts are computed from (a via with a branch, a tag parameter, a call-id): it must not matter.
func (b *builder) decoy() string {
	switch b.r.Intn(4) {
	case 0:
		return "SIP/2.0/UDP " + b.g.Host() + ";branch=z9hG4bK" + b.r.Pick([]string{"", "-", "a.b", "x@y", "1:2"}) + strconv.Itoa(b.r.Intn(1<<30))
	case 1:
		return "<sip:d@" + b.g.Host() + ">;tag=" + b.r.Pick([]string{"", "a-", "b.c.", "q@r", "7:8_"}) + strconv.Itoa(b.r.Intn(1<<20))
	case 2:
		return b.r.Pick([]string{"", "a-b-", "c.d@", "e:f:", "0_1"}) + strconv.Itoa(b.r.Intn(1<<30)) + "@" + b.g.Host()
	}
	return "x;branch=" + b.r.Pick([]string{"z9hG4bK", "", "Z9HG4BK"}) + b.r.Pick([]string{"a.b", "c-d", "e@f", "g:h", "12"})
}

func (b *builder) otherHdr() gen.HdrSpec {
	if b.r.Chance(1, 4) {
		return plainHdr(b.r.Pick([]string{"X-Via", "Subject", "X-From", "X-Call-ID", "Vias", "Froms", "P-Charge-Info"}), b.decoy())
	}
	switch b.r.Intn(7) {
	case 0:
		return plainHdr("Expires", strconv.Itoa(b.r.Intn(7200)))
	case 1:
		return plainHdr("Route", "<sip:"+b.g.Host()+";lr>")
	case 2:
		return plainHdr("Record-Route", "<sip:"+b.g.Host()+";lr>")
	case 3:
		return plainHdr("P-Asserted-Identity", "<sip:"+strconv.Itoa(b.r.Intn(100000))+"@"+b.g.Host()+">")
	case 4:
		return plainHdr("Subject", b.g.Generic())
	case 5:
		return plainHdr("Allow", "INVITE, ACK, BYE")
	}
	return plainHdr("X-"+strconv.Itoa(b.r.Intn(1000)), b.g.Generic())
}

// variant derives a message that must have the same signature as base.
func (b *builder) variant(base gen.MsgSpec) (gen.MsgSpec, string) {
	m := cloneMsg(base)
	var what []string
	// Contact is fingerprinted for INVITE only: in any other request it is one of the "other" headers
	invite := base.Method() == "INVITE"
	fp := func(kind string) bool {
		if kind == "contact" {
			return invite
		}
		return fingerprinted[kind]
	}
	ops := b.r.Range(1, 3)
	for ; ops > 0; ops-- {
		switch b.r.Intn(11) {
		case 10: // an empty parameter at the end of the first via (stray ';'), alone or in front of a further list element
			if i := m.FirstOf("via"); i >= 0 && !strings.ContainsAny(m.Hdrs[i].Val, ",\"") && strings.Contains(m.Hdrs[i].Val, ";branch=") {
				m.Hdrs[i].Val += ";"
				if b.r.Chance(1, 2) {
					m.Hdrs[i].Val += b.r.Pick([]string{",", ", ", " ,"}) + "SIP/2.0/UDP " + b.g.Host() + ";branch=z9hG4bK" + strconv.Itoa(b.r.Intn(1<<30))
				}
				what = append(what, "via-semi")
			}
		case 0: // insert other headers
			for k := b.r.Range(1, 3); k > 0; k-- {
				p := b.r.Intn(len(m.Hdrs) + 1)
				h := b.otherHdr()
				if !invite && b.r.Chance(1, 3) {
					h = plainHdr(b.r.Pick([]string{"Contact", "m", "CONTACT"}), "<sip:"+strconv.Itoa(b.r.Intn(1000))+"@"+b.g.Host()+">")
					if b.r.Chance(1, 2) {
						p = len(m.Hdrs) // behind every fingerprinted header
					}
				}
				m.Hdrs = append(m.Hdrs, gen.HdrSpec{})
				copy(m.Hdrs[p+1:], m.Hdrs[p:])
				m.Hdrs[p] = h
			}
			what = append(what, "insert-other")
		case 1: // remove other headers
			var keep []gen.HdrSpec
			for _, h := range m.Hdrs {
				if !fp(h.Kind) && h.Kind != "content-length" && b.r.Chance(1, 2) {
					continue
				}
				keep = append(keep, h)
			}
			m.Hdrs = keep
			what = append(what, "remove-other")
		case 2: // repeat a fingerprinted header later, possibly in the other name form
			var idx []int
			for i, h := range m.Hdrs {
				if fingerprinted[h.Kind] && h.Kind != "call-id" && h.Kind != "cseq" && h.Kind != "max-forwards" {
					idx = append(idx, i)
				}
			}
			if len(idx) > 0 {
				i := idx[b.r.Intn(len(idx))]
				h := m.Hdrs[i]
				switch h.Kind {
				case "via":
					h = plainHdr(b.r.Pick([]string{"Via", "v"}), "SIP/2.0/UDP "+b.g.Host()+";branch=z9hG4bK"+strconv.Itoa(b.r.Intn(1<<30)))
				case "contact":
					h = plainHdr(b.r.Pick([]string{"Contact", "m"}), "<sip:"+b.g.Host()+">")
				case "from":
					h = plainHdr(b.r.Pick([]string{"From", "f"}), "<sip:x@"+b.g.Host()+">;tag="+strconv.Itoa(b.r.Intn(1<<30)))
				case "to":
					h = plainHdr(b.r.Pick([]string{"To", "t"}), "<sip:y@"+b.g.Host()+">")
				case "user-agent":
					h = plainHdr("User-Agent", "other/1.0")
				}
				p := b.r.Range(i+1, len(m.Hdrs))
				m.Hdrs = append(m.Hdrs, gen.HdrSpec{})
				copy(m.Hdrs[p+1:], m.Hdrs[p:])
				m.Hdrs[p] = h
				what = append(what, "repeat-"+h.Kind)
			}
		case 3: // change the values of other headers
			for i := range m.Hdrs {
				h := &m.Hdrs[i]
				if h.Kind == "" {
					h.Val = b.g.Generic()
					if b.r.Chance(1, 3) {
						h.Val = b.decoy()
					}
				} else if h.Kind == "expires" {
					h.Val = strconv.Itoa(b.r.Intn(100000))
				}
			}
			what = append(what, "other-values")
		case 4: // change non-fingerprinted parts of fingerprinted headers
			for i := range m.Hdrs {
				h := &m.Hdrs[i]
				first := m.FirstOf(h.Kind) == i
				switch h.Kind {
				case "to":
					h.Val = "<sip:" + strconv.Itoa(b.r.Intn(100000)) + "@" + b.g.Host() + ">"
				case "max-forwards":
					h.Val = strconv.Itoa(b.r.Intn(256))
				case "user-agent":
					h.Val = b.g.Generic()
				case "cseq":
					if sp := strings.LastIndexAny(h.Val, " \t"); sp >= 0 {
						h.Val = strconv.Itoa(b.r.Intn(1<<20)) + " " + h.Val[sp+1:]
					}
				case "contact":
					if h.Val != "*" {
						h.Val = "<sip:" + strconv.Itoa(b.r.Intn(100000)) + "@" + b.g.Host() + ">"
					}
				case "from":
					if first {
						// keep the tag parameter text, change the address
						if ti := strings.Index(strings.ToLower(h.Val), ";tag="); ti >= 0 && !strings.ContainsAny(h.Val[ti+1:], "; \t\r\n\"") {
							h.Val = "\"N " + strconv.Itoa(b.r.Intn(1000)) + "\" <sip:" + strconv.Itoa(b.r.Intn(100000)) + "@" + b.g.Host() + ">" + h.Val[ti:]
						}
					}
				}
			}
			what = append(what, "unfingerprinted-parts")
		case 7: // a second via written into the FIRST Via header as a comma-separated list element
			if i := m.FirstOf("via"); i >= 0 && !strings.Contains(m.Hdrs[i].Val, ",") {
				m.Hdrs[i].Val += b.r.Pick([]string{",", ", ", " ,"}) + "SIP/2.0/UDP " + b.g.Host() + ";branch=z9hG4bK" + strconv.Itoa(b.r.Intn(1<<30)) + b.r.Pick([]string{"", ";rport", "-x.y_z"})
				what = append(what, "via-list")
			}
		case 8: // other parameters of the first via change (also quoted ones holding delimiters); its branch stays
			if i := m.FirstOf("via"); i >= 0 {
				v := m.Hdrs[i].Val
				first := v
				if c := strings.IndexByte(v, ','); c >= 0 && !strings.Contains(v[:c], "\"") {
					first = v[:c]
				}
				if bi := strings.Index(first, ";branch"); bi >= 0 && !strings.Contains(first, "\"") {
					ins := b.r.Pick([]string{";x=\"a,b\"", ";y=\"p;q\"", ";rport", ";ttl=1", ";z=\"\\\"\"", ";received=10.0.0.1", ";maddr=a.b-c_d", ";w=0123456789abcdef", ";e=\"\"", ";e=\"\";f=1", ";g=\"\\\\\"", ";x=a`b", ";k=v=w", ";pad=YWI=", ";=v", ";a b=c", ";x=\"a\x7f\"", ";y=\"p\x01;q\"", ";z=\"a\x7fb;c\";w=1", ";x=a\\", ";k=v=w\\", ";q=\\"})
					m.Hdrs[i].Val = v[:bi] + ins + v[bi:]
					what = append(what, "via-params")
					// white space that is legal but rare right behind the branch value
					if b.r.Chance(1, 3) {
						nv := m.Hdrs[i].Val
						if bj := strings.Index(nv, ";branch="); bj >= 0 {
							e := bj + len(";branch=")
							for e < len(nv) && nv[e] != ';' && nv[e] != ',' && nv[e] != ' ' && nv[e] != '\t' {
								e++
							}
							if e > bj+len(";branch=") && (e == len(nv) || nv[e] == ';') {
								m.Hdrs[i].Val = nv[:e] + b.r.Pick([]string{"\t", " ", "\t ", "  "}) + ";rport" + nv[e:]
								what = append(what, "via-ws")
							}
						}
					}
				}
			}
		case 9: // reorder header lines of different kinds (same-kind lines keep their order, so "first Via" etc. stay):
			// the header-order part changes legitimately, method and character-class parts must not
			for k := b.r.Range(1, 6); k > 0 && len(m.Hdrs) > 1; k-- {
				i := b.r.Intn(len(m.Hdrs) - 1)
				a, c := m.Hdrs[i], m.Hdrs[i+1]
				if a.Kind != c.Kind || a.Kind == "" {
					m.Hdrs[i], m.Hdrs[i+1] = c, a
				}
			}
			what = append(what, "permute")
		case 5: // whitespace / folding around values, other terminators
			for i := range m.Hdrs {
				h := &m.Hdrs[i]
				h.Lead = b.g.LWS(false)
				h.Trail = b.g.WS(2)
				if b.r.Chance(1, 3) {
					h.Pre = b.g.WS(2)
				}
			}
			what = append(what, "whitespace")
		case 6: // body change
			m.Body = b.g.Body(b.r.Intn(80))
			what = append(what, "body")
		}
	}
	fixCL(&m)
	if m.Blank == "\r" && len(m.Body) == 0 {
		m.Blank = "\r\n"
	}
	for i := range m.Hdrs {
		if m.Hdrs[i].Val == "" && strings.ContainsAny(m.Hdrs[i].Lead, "\r\n") {
			m.Hdrs[i].Lead = " "
		}
		if m.Hdrs[i].Term == "\r" && i == len(m.Hdrs)-1 && strings.HasPrefix(m.Blank, "\n") {
			m.Hdrs[i].Term = "\r\n"
		}
	}
	if len(m.Body) > 0 && m.Body[0] == '\n' && m.Blank == "\r" {
		m.Blank = "\r\n"
	}
	return m, strings.Join(what, "+")
}

// C19: paired connections carry metamorphic variants of one request.
func (b *builder) buildC19() {
	b.g.Strict = true
	// methods as RFC 3261 writes them, or extension tokens in upper case (how a method token is
	// classified is C08/C16's business; the signature model only needs to know what an INVITE is)
	method := b.r.Pick([]string{"INVITE", "INVITE", "INVITE", "REGISTER", "OPTIONS", "BYE", "SUBSCRIBE", "ACK", "CANCEL", "NOTIFY", "MESSAGE", "XFOO", "X-EXT"})
	if b.r.Chance(1, 15) {
		// method names are case-sensitive (C08 / C16): these are extension methods, not INVITE / REGISTER
		method = b.r.Pick([]string{"Invite", "invite", "INVITe", "iNVITE", "Register", "bye", "INVITEX", "INVIT"})
	}
	o := gen.MsgOpts{Request: 1, CL: gen.CLExact, BodyMax: 80, MaxHdrs: b.r.PickInt(0, 0, 6, 12), ForceMethod: method, ValidStatus: true, Canonical: true}
	if b.r.Chance(1, 12) {
		o.Request = 0 // replies: no signature
		o.VerCase = true
	}
	base := b.g.Msg(o)
	if base.Blank == "\r" && len(base.Body) == 0 {
		base.Blank = "\r\n"
	}
	nv := b.r.Range(2, 4)
	var plans []connPlan
	for i := 0; i < nv; i++ {
		m, what := base, "base"
		if i > 0 {
			m, what = b.variant(base)
		}
		c := Conn{Cfg: sut.Cfg{Kind: "msg", Flags: uint(b.r.PickInt(0, 0, 1, 2, 3)), EOFFlag: b.r.Chance(1, 2), ConCap: b.r.PickInt(-1, 0, 2, 10)}, Obj: -1, Group: 1, Variant: what}
		c.Msgs = []gen.MsgSpec{m}
		n := len(m.Hdrs)
		switch b.r.Intn(5) {
		case 0:
			c.Cfg.HdrCap = b.r.Range(0, n) // may be too small: equal or truncated indication
		case 1:
			c.Cfg.HdrCap = n
		default:
			c.Cfg.HdrCap = n + b.r.Range(0, 10)
		}
		if n <= 10 && b.r.Chance(1, 4) {
			c.Cfg.HdrCap = -1
		}
		s := c.Stream()
		b.sc.Conns = append(b.sc.Conns, c)
		plans = append(plans, connPlan{conn: i, cuts: b.cuts(s, b.pickSched(len(s))), end: b.r.PickInt(endEOFWith, endEOFAfter, endNone), t0: int64(b.r.Intn(5000))})
	}
	b.schedule(plans)
}
