package sim

import (
	"verif/gen"
)

// Minimise shrinks a failing scenario while the same violation class
// (property + monitor) persists. Scenario-level delta debugging: drop
// connections / tasks, drop faults, merge deliveries, drop messages and header
// lines, flatten to raw bytes and ddmin them, reset knobs to defaults.
// Bounded by a step budget (every step is one execution of a candidate).
func Minimise(sc *Scenario, mon Monitors, key string, budget int) (*Scenario, int) {
	steps := 0
	fails := func(c *Scenario) bool {
		if steps >= budget {
			return false
		}
		steps++
		v := safeExec(c, mon)
		return v != nil && v.Key() == key
	}
	cur := sc.Clone()
	for pass := 0; pass < 6 && steps < budget; pass++ {
		before := steps
		changed := false
		try := func(c *Scenario) bool {
			if fails(c) {
				cur = c
				changed = true
				return true
			}
			return false
		}
		// 1. drop tasks
		for i := len(cur.Tasks) - 1; i >= 0 && len(cur.Tasks) > 1; i-- {
			c := cur.Clone()
			c.Tasks = append(c.Tasks[:i], c.Tasks[i+1:]...)
			try(c)
		}
		if len(cur.Sched) > 0 {
			c := cur.Clone()
			c.Sched = nil
			if !try(c) {
				for n := len(cur.Sched) / 2; n >= 1; n /= 2 {
					c := cur.Clone()
					c.Sched = c.Sched[:len(c.Sched)-n]
					try(c)
				}
			}
		}
		// shrink task inputs
		for i := range cur.Tasks {
			for _, which := range []int{0, 1} {
				get := func(s *Scenario) *HexBytes {
					if which == 0 {
						return &s.Tasks[i].A
					}
					return &s.Tasks[i].B
				}
				if cur.Tasks[i].Fn == "stream" && which == 0 {
					// keep cut positions meaningful: clamp them
					ddminBytes(*get(cur), func(nb []byte) bool {
						c := cur.Clone()
						*get(c) = nb
						for k := range c.Tasks[i].Cuts {
							if c.Tasks[i].Cuts[k] > len(nb) {
								c.Tasks[i].Cuts[k] = len(nb)
							}
						}
						if c.Tasks[i].N1 > len(nb) {
							c.Tasks[i].N1 = len(nb)
						}
						return try(c)
					}, &steps, budget)
					continue
				}
				ddminBytes(*get(cur), func(nb []byte) bool {
					c := cur.Clone()
					*get(c) = nb
					return try(c)
				}, &steps, budget)
			}
			if cur.Tasks[i].Fn == "stream" && len(cur.Tasks[i].Cuts) > 1 {
				for k := len(cur.Tasks[i].Cuts) - 2; k >= 0; k-- {
					c := cur.Clone()
					c.Tasks[i].Cuts = append(c.Tasks[i].Cuts[:k], c.Tasks[i].Cuts[k+1:]...)
					try(c)
				}
			}
		}
		// 2. drop connections (only safe when no later connection shares state: pooled objects make
		// earlier connections part of the history, so dropping them is still tried - the predicate decides)
		for i := len(cur.Conns) - 1; i >= 0 && len(cur.Conns) > 1; i-- {
			try(dropConn(cur, i))
		}
		// 3. drop fault events, then merge deliveries
		for i := len(cur.Events) - 1; i >= 0; i-- {
			if i >= len(cur.Events) {
				continue
			}
			if cur.Events[i].Op != EvDeliver {
				c := cur.Clone()
				c.Events = append(c.Events[:i], c.Events[i+1:]...)
				try(c)
			}
		}
		for i := len(cur.Events) - 1; i >= 0; i-- {
			if i >= len(cur.Events) {
				continue
			}
			e := cur.Events[i]
			if e.Op == EvDeliver {
				// removing a delivery merges it into the next one of the same connection (if any)
				hasLater := false
				for j := i + 1; j < len(cur.Events); j++ {
					if cur.Events[j].Conn == e.Conn && cur.Events[j].Op == EvDeliver {
						hasLater = true
						break
					}
				}
				c := cur.Clone()
				c.Events = append(c.Events[:i], c.Events[i+1:]...)
				_ = hasLater
				try(c)
			}
		}
		// C19 worlds hold variants of ONE request: shrinking the content of one variant
		// alone would break the premise of the metamorphic relation (a dropped Via in the
		// base is a different message, not a smaller witness). Only connections,
		// deliveries and knobs are minimised for them.
		contentOK := cur.Prop != "C19"
		// 4. structured content: drop messages, drop header lines, drop bodies
		for ci := range cur.Conns {
			if !contentOK {
				break
			}
			for mi := len(cur.Conns[ci].Msgs) - 1; mi >= 0 && len(cur.Conns[ci].Msgs) > 1; mi-- {
				c := cur.Clone()
				off, l := msgExtent(&c.Conns[ci], mi)
				c.Conns[ci].Msgs = append(c.Conns[ci].Msgs[:mi], c.Conns[ci].Msgs[mi+1:]...)
				remapEvents(c, ci, off, l)
				try(c)
			}
			for mi := range cur.Conns[ci].Msgs {
				for hi := len(cur.Conns[ci].Msgs[mi].Hdrs) - 1; hi >= 0 && len(cur.Conns[ci].Msgs[mi].Hdrs) > 1; hi-- {
					if hi >= len(cur.Conns[ci].Msgs[mi].Hdrs) {
						continue
					}
					c := cur.Clone()
					m := &c.Conns[ci].Msgs[mi]
					off, _ := msgExtent(&c.Conns[ci], mi)
					ho := len(m.FLine) + len(m.FTerm)
					for k := 0; k < hi; k++ {
						ho += len(m.Hdrs[k].Render())
					}
					hl := len(m.Hdrs[hi].Render())
					m.Hdrs = append(m.Hdrs[:hi], m.Hdrs[hi+1:]...)
					remapEvents(c, ci, off+ho, hl)
					try(c)
				}
			}
		}
		// 5. flatten structured connections to raw bytes when the violation does not need the truth
		for ci := range cur.Conns {
			if contentOK && cur.Conns[ci].Msgs != nil {
				try(flatten(cur, ci))
			}
		}
		// 6. ddmin over raw stream bytes (events remapped), junk bytes, forks
		for ci := range cur.Conns {
			if contentOK && cur.Conns[ci].Msgs == nil && len(cur.Conns[ci].Raw) > 0 {
				ddminRange(len(cur.Conns[ci].Raw), func(off, l int) bool {
					if off+l > len(cur.Conns[ci].Raw) {
						return false
					}
					c := cur.Clone()
					r := c.Conns[ci].Raw
					c.Conns[ci].Raw = append(append(HexBytes(nil), r[:off]...), r[off+l:]...)
					remapEvents(c, ci, off, l)
					return try(c)
				}, func() int { return len(cur.Conns[ci].Raw) }, &steps, budget)
			}
			if len(cur.Conns[ci].Junk) > 0 {
				c := cur.Clone()
				c.Conns[ci].Junk = nil
				if !try(c) {
					ddminBytes(cur.Conns[ci].Junk, func(nb []byte) bool {
						c := cur.Clone()
						c.Conns[ci].Junk = nb
						return try(c)
					}, &steps, budget)
				}
			}
		}
		if len(cur.Forks) > 1 {
			for i := len(cur.Forks) - 1; i >= 0 && len(cur.Forks) > 1; i-- {
				c := cur.Clone()
				c.Forks = append(c.Forks[:i], c.Forks[i+1:]...)
				try(c)
			}
		}
		// 7. knobs to defaults, one at a time
		for ci := range cur.Conns {
			for k := 0; k < 9; k++ {
				c := cur.Clone()
				cc := &c.Conns[ci]
				switch k {
				case 0:
					if cc.Cfg.Flags == 0 {
						continue
					}
					cc.Cfg.Flags = 0
				case 1:
					if !cc.Cfg.EOFFlag {
						continue
					}
					cc.Cfg.EOFFlag = false
				case 2:
					if cc.Cfg.HdrCap == -1 {
						continue
					}
					cc.Cfg.HdrCap = -1
				case 3:
					if cc.Cfg.ConCap == -1 {
						continue
					}
					cc.Cfg.ConCap = -1
				case 4:
					if !cc.Compact {
						continue
					}
					cc.Compact = false
				case 5:
					if cc.ResetBy == 0 {
						continue
					}
					cc.ResetBy = 0
				case 6:
					if cc.Cfg.ParCap == -1 {
						continue
					}
					cc.Cfg.ParCap = -1
				case 7:
					if !cc.Cfg.NoHB {
						continue
					}
					cc.Cfg.NoHB = false
				case 8:
					if cc.Obj < 0 || c.Prop == "C12" {
						continue
					}
					cc.Obj = -1
				}
				try(c)
			}
		}
		// 8. simplify bytes: replace by 'a' where the failure survives
		for ci := range cur.Conns {
			if contentOK && cur.Conns[ci].Msgs == nil && len(cur.Conns[ci].Raw) > 0 && len(cur.Conns[ci].Raw) <= 200 {
				for p := 0; p < len(cur.Conns[ci].Raw) && steps < budget; p++ {
					ch := cur.Conns[ci].Raw[p]
					if ch == 'a' || ch == '\r' || ch == '\n' {
						continue
					}
					c := cur.Clone()
					c.Conns[ci].Raw[p] = 'a'
					try(c)
				}
			}
		}
		if !changed || steps == before {
			break
		}
	}
	return cur, steps
}

func safeExec(c *Scenario, mon Monitors) (v *Violation) {
	defer func() {
		if r := recover(); r != nil {
			v = nil // a candidate that breaks the harness is not a witness
		}
	}()
	return Exec(c, mon, nil)
}

func dropConn(s *Scenario, i int) *Scenario {
	c := s.Clone()
	c.Conns = append(c.Conns[:i], c.Conns[i+1:]...)
	var ev []Event
	for _, e := range c.Events {
		if e.Conn == i {
			continue
		}
		if e.Conn > i {
			e.Conn--
		}
		ev = append(ev, e)
	}
	c.Events = ev
	return c
}

func msgExtent(c *Conn, mi int) (off, l int) {
	for k := 0; k < mi; k++ {
		off += c.Msgs[k].Len()
	}
	return off, c.Msgs[mi].Len()
}

// remapEvents adjusts stream positions after removing stream bytes [off,off+l) of conn ci.
func remapEvents(s *Scenario, ci, off, l int) {
	adj := func(p int) int {
		switch {
		case p <= off:
			return p
		case p >= off+l:
			return p - l
		}
		return off
	}
	for i := range s.Events {
		e := &s.Events[i]
		if e.Conn != ci {
			continue
		}
		switch e.Op {
		case EvDeliver:
			e.Upto = adj(e.Upto)
		case EvCorrupt:
			e.Pos = adj(e.Pos)
		}
	}
}

func flatten(s *Scenario, ci int) *Scenario {
	c := s.Clone()
	c.Conns[ci].Raw = c.Conns[ci].Stream()
	c.Conns[ci].Msgs = nil
	return c
}

// ddminBytes: classic chunk removal on a byte string.
func ddminBytes(b []byte, test func([]byte) bool, steps *int, budget int) {
	cur := append([]byte(nil), b...)
	for n := len(cur) / 2; n >= 1; n /= 2 {
		for off := 0; off+n <= len(cur) && *steps < budget; {
			cand := append(append([]byte(nil), cur[:off]...), cur[off+n:]...)
			if test(cand) {
				cur = cand
			} else {
				off += n
			}
		}
	}
}

// ddminRange: chunk removal where the caller applies the removal itself.
func ddminRange(n0 int, remove func(off, l int) bool, curLen func() int, steps *int, budget int) {
	for n := n0 / 2; n >= 1; n /= 2 {
		for off := 0; off+n <= curLen() && *steps < budget; {
			if !remove(off, n) {
				off += n
			}
		}
	}
}

var _ = gen.CLAny
