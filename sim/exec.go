package sim

import (
	"fmt"
	"runtime/debug"
	"strings"

	"github.com/intuitivelabs/sipsp"

	"verif/oracle"
	"verif/sut"
)

// Monitors selects the property monitors of a run. The crash / offset /
// dereference monitor (C04) is always on.
type Monitors struct {
	Resume bool // C01 (msg driver) / C02 (sub-parser drivers): resumed == one-shot on the same prefix
	C03    bool // definitive verdicts are stable under any continuation
	C05    bool // containment / order / nesting
	C06    bool // framing reference model + pipelining + bounded liveness
	C10    bool // numbers exact or rejected
	C11    bool // start-offset independence (lock-step shadow at offset 0)
	C12    bool // pooled (reset) object == brand-new object (lock-step)
	C13    bool // capacities only truncate what is stored (lock-step ample shadow)
	C19    bool // signature relations
}

// Violation is one failed check.
type Violation struct {
	Prop    string
	Monitor string
	Conn    int
	Unit    int
	Call    int
	Detail  string
}

// Key identifies the violation class: minimisation keeps it, replay must
// reproduce it.
func (v *Violation) Key() string { return v.Prop + "/" + v.Monitor }

func (v *Violation) String() string {
	return fmt.Sprintf("property=%s monitor=%s conn=%d unit=%d call=%d: %s", v.Prop, v.Monitor, v.Conn, v.Unit, v.Call, v.Detail)
}

func resumeProp(kind string) string {
	if kind == "msg" {
		return "C01"
	}
	return "C02"
}

type lockShadow struct {
	what  string // "C11", "C12", "C13"
	drv   sut.Driver
	shift int // receiver offset - shadow offset
	cont  int
}

type connState struct {
	c         *Conn
	idx       int
	full      []byte // junk + stream (after compaction: the unconsumed rest)
	junk      int
	dropped   int // bytes removed from the front of full by compaction (stream coordinates keep counting)
	L         int // delivered length of full
	start     int
	cont      int
	drv       sut.Driver
	shadows   []lockShadow
	unit      int
	calls     int
	closed    bool
	eof       bool
	tainted   bool  // in-flight corruption hit this connection: sender-side models no longer describe the bytes
	msgIdx    int   // index in c.Msgs of the message the current unit starts at (-1: unknown)
	msgStarts []int // stream offsets of c.Msgs
	hist      []int // accumulating drivers: start offsets of the earlier units parsed into the same object
	results   []oracle.UnitResult
	usedPool  bool
}

// World is the execution state of one scenario.
type World struct {
	shared *sut.SharedPool // caller arrays shared by the pooled objects (Scenario.SharePool)
	sc    *Scenario
	mon   Monitors
	st    *Stats
	conns []*connState
	pool  map[int]sut.Driver
	owner map[int]*connState
	recA  sut.Rec
	recB  sut.Rec
	v     *Violation
	// oneShot is the object of the per-call "brand-new object, one call"
	// shadow; it is renewed by Go zero-value assignment, never by Reset()
	oneShot sut.Driver
}

// Exec runs a scenario: a pure function of (scenario, library code).
func Exec(sc *Scenario, mon Monitors, st *Stats) (v *Violation) {
	if len(sc.Tasks) > 0 {
		return ExecTasks(sc, st)
	}
	w := &World{sc: sc, mon: mon, st: st, pool: map[int]sut.Driver{}, owner: map[int]*connState{}}
	defer func() {
		// a panic outside a guarded library call is a harness bug; surface it loudly
		if r := recover(); r != nil {
			panic(fmt.Sprintf("harness panic (not a library call): %v\n%s", r, debug.Stack()))
		}
	}()
	for i := range sc.Conns {
		c := &sc.Conns[i]
		cs := &connState{c: c, idx: i, msgIdx: -1}
		stream := c.Stream()
		cs.junk = len(c.Junk)
		cs.full = make([]byte, 0, cs.junk+len(stream))
		cs.full = append(cs.full, c.Junk...)
		cs.full = append(cs.full, stream...)
		cs.L = cs.junk
		cs.start = cs.junk
		cs.cont = cs.junk
		if c.Msgs != nil {
			o := 0
			for k := range c.Msgs {
				cs.msgStarts = append(cs.msgStarts, o)
				o += c.Msgs[k].Len()
			}
		}
		w.conns = append(w.conns, cs)
	}
	for ei := range sc.Events {
		ev := &sc.Events[ei]
		if ev.Conn < 0 || ev.Conn >= len(w.conns) {
			continue
		}
		cs := w.conns[ev.Conn]
		if cs.closed {
			continue
		}
		switch ev.Op {
		case EvDeliver:
			nl := cs.junk + ev.Upto - cs.dropped
			if nl > len(cs.full) {
				nl = len(cs.full)
			}
			if nl < cs.L {
				nl = cs.L
			}
			grew := nl > cs.L
			if st != nil && grew {
				st.noteCut(cs, nl)
			}
			cs.L = nl
			if ev.EOF {
				cs.eof = true
			}
			if grew || ev.EOF {
				w.pump(cs)
			}
		case EvEOF:
			cs.eof = true
			if st != nil {
				st.fault("eof")
			}
			w.pump(cs)
		case EvAbort:
			if st != nil {
				st.fault("abort")
				if cs.drv != nil {
					st.fault("abort-mid-unit")
				}
			}
			cs.closed = true
			cs.drv = nil
		case EvCorrupt:
			p := cs.junk + ev.Pos - cs.dropped
			if p >= cs.L && p < len(cs.full) {
				cs.full[p] = ev.Byte
				cs.tainted = true
				if st != nil {
					st.fault("corrupt")
				}
			}
		}
		if w.v != nil {
			return w.v
		}
	}
	w.finish()
	return w.v
}

func (w *World) fail(cs *connState, prop, monitor, detail string) {
	if w.v == nil {
		w.v = &Violation{Prop: prop, Monitor: monitor, Conn: cs.idx, Unit: cs.unit, Call: cs.calls, Detail: detail}
	}
}

// guarded makes one library call under recover.
func guarded(d sut.Driver, buf []byte, offs int, eof bool) (ret int, err sipsp.ErrorHdr, pan string) {
	defer func() {
		if r := recover(); r != nil {
			pan = fmt.Sprintf("%v | %s", r, topFrames(string(debug.Stack())))
		}
	}()
	ret, err = d.Call(buf, offs, eof)
	return
}

func guardedSnap(d sut.Driver, r *sut.Rec, buf []byte) (pan string) {
	defer func() {
		if x := recover(); x != nil {
			pan = fmt.Sprintf("%v | %s", x, topFrames(string(debug.Stack())))
		}
	}()
	d.Snap(r, buf)
	return
}

// topFrames keeps the library frames of a stack trace (file:line only).
func topFrames(s string) string {
	var out []string
	for _, ln := range strings.Split(s, "\n") {
		ln = strings.TrimSpace(ln)
		if strings.Contains(ln, ".go:") && !strings.Contains(ln, "/runtime/") && !strings.Contains(ln, "verif/") {
			if i := strings.LastIndex(ln, "/"); i >= 0 {
				ln = ln[i+1:]
			}
			if j := strings.Index(ln, " "); j >= 0 {
				ln = ln[:j]
			}
			out = append(out, ln)
			if len(out) >= 4 {
				break
			}
		}
	}
	return strings.Join(out, " < ")
}

func (w *World) acquire(cs *connState) sut.Driver {
	c := cs.c
	if c.Obj < 0 {
		return sut.New(c.Cfg)
	}
	// one user at a time: if another connection still holds this object it
	// has been abandoned by its handler (connection torn down)
	if o, held := w.owner[c.Obj]; held && o != cs && o.drv != nil {
		o.closed = true
		o.drv = nil
		if w.st != nil {
			w.st.fault("abandon-mid-unit")
		}
	}
	w.owner[c.Obj] = cs
	d, ok := w.pool[c.Obj]
	if !ok {
		d = sut.New(c.Cfg)
		if w.sc.SharePool {
			if w.shared == nil {
				w.shared = &sut.SharedPool{}
			}
			sut.UsePool(d, w.shared)
		}
		w.pool[c.Obj] = d
		return d
	}
	// a used object: re-initialise it the documented way - Reset(), or the init operation,
	// which may come with other caller arrays than the object had before
	func() {
		defer func() {
			if r := recover(); r != nil {
				w.fail(cs, "C04", "panic", fmt.Sprintf("%s: Reset()/Init() of a used object panicked: %v | %s", c.Cfg.Kind, r, topFrames(string(debug.Stack()))))
			}
		}()
		if pk, ok := d.(interface{ Poke(int) }); ok && c.Poke != 0 {
			pk.Poke(c.Poke)
			if w.st != nil {
				w.st.fault("user-sethdr-before-reset")
			}
		}
		if w.st != nil && c.Cfg.Frag {
			w.st.fault("header-block-use-of-message-object")
		}
		if w.st != nil && w.sc.SharePool && c.ResetBy == sut.ByInit {
			w.st.fault("init-from-shared-array-pool")
		}
		if c.ResetBy == sut.ByInit {
			d.Reinit(c.Cfg)
		} else {
			if ad, ok := d.(interface{ Adopt(sut.Cfg) }); ok {
				ad.Adopt(c.Cfg)
			}
			d.Reset(sut.ByReset)
		}
	}()
	if w.st != nil {
		w.st.probe("pool-reuse")
	}
	return d
}

func ampleCfg(c sut.Cfg) sut.Cfg {
	a := c
	a.HdrCap = 300
	a.ConCap = 300
	a.ParCap = 300
	return a
}

// beginUnit takes an object and sets up the lock-step shadows.
func (w *World) beginUnit(cs *connState) {
	cs.drv = w.acquire(cs)
	cs.cont = cs.start
	cs.calls = 0
	cs.hist = cs.hist[:0]
	cs.shadows = cs.shadows[:0]
	if w.mon.C11 && cs.start > 0 {
		cs.shadows = append(cs.shadows, lockShadow{what: "C11", drv: sut.New(cs.c.Cfg), shift: cs.start, cont: 0})
	}
	if w.mon.C12 && cs.c.Obj >= 0 {
		cs.shadows = append(cs.shadows, lockShadow{what: "C12", drv: sut.New(cs.c.Cfg), shift: 0, cont: cs.start})
	}
	if w.mon.C13 && cs.c.ShadowAmple {
		cs.shadows = append(cs.shadows, lockShadow{what: "C13", drv: sut.New(ampleCfg(cs.c.Cfg)), shift: 0, cont: cs.start})
	}
	// which structured message starts here (sender-side truth)?
	cs.msgIdx = -1
	if cs.c.Msgs != nil && !cs.tainted {
		so := cs.start - cs.junk + cs.dropped
		for k, ms := range cs.msgStarts {
			if ms == so {
				cs.msgIdx = k
			}
		}
	}
}

// pump runs the receiver's parse loop on what has been delivered so far.
func (w *World) pump(cs *connState) {
	for !cs.closed && w.v == nil {
		if cs.drv == nil {
			if cs.start >= cs.L {
				break // nothing unparsed
			}
			w.beginUnit(cs)
			if w.v != nil {
				return
			}
		} else if cs.calls == 0 && cs.start >= cs.L {
			break // accumulating object, next header body not there yet
		}
		buf := cs.full[:cs.L]
		if cs.c.Realloc {
			nb := make([]byte, cs.L)
			copy(nb, buf)
			buf = nb
		}
		eofCall := cs.eof || (cs.c.EarlyEOF > 0 && cs.calls+1 == cs.c.EarlyEOF)
		if w.st != nil {
			if eofCall && !cs.eof {
				w.st.fault("false-end-of-input")
			}
			if cs.c.Cfg.LateFrom > 0 && cs.calls+1 == cs.c.Cfg.LateFrom+1 {
				w.st.fault("flags-changed-mid-message")
			}
			if cs.calls == 0 && cs.c.Cfg.HBMask != 0 {
				w.st.fault("caller-phbodies-with-nil-getters")
			}
		}
		prevCont := cs.cont
		ret, err, pan := guarded(cs.drv, buf, cs.cont, eofCall)
		cs.calls++
		if w.st != nil {
			w.st.call(cs, err)
		}
		kind := cs.c.Cfg.Kind
		if pan != "" {
			w.fail(cs, "C04", "panic", fmt.Sprintf("%s driver panicked: %s", kind, pan))
			return
		}
		// C04: offset sanity
		if ret < 0 || ret > len(buf) {
			w.fail(cs, "C04", "offset-range", fmt.Sprintf("%s returned offset %d outside buffer of %d (err=%d %q)", kind, ret, len(buf), err, err))
			return
		}
		if ret < prevCont && !sut.IsError(err) {
			w.fail(cs, "C04", "offset-backwards", fmt.Sprintf("%s returned offset %d < offset passed in %d with non-error verdict %d %q", kind, ret, prevCont, err, err))
			return
		}
		// C04: every reported field can be dereferenced (also while suspended / after an error)
		ra := &w.recA
		ra.Reset(cs.start, len(buf))
		if p := guardedSnap(cs.drv, ra, buf); p != "" {
			w.fail(cs, "C04", "panic-readback", fmt.Sprintf("%s: reading results panicked: %s", kind, p))
			return
		}
		if ra.OOB != "" {
			w.fail(cs, "C04", "field-deref", fmt.Sprintf("%s verdict %d %q: field out of range: %s", kind, err, err, ra.OOB))
			return
		}
		if w.st != nil && w.st.WantObs {
			// behaviour fingerprint of the run (event-log mode only; selftest/automut classifies
			// mutants that never change it as equivalent on the workload)
			h := w.st.Obs
			mix := func(v uint64) { h = (h ^ v) * 1099511628211 }
			mix(uint64(ret))
			mix(uint64(err))
			for _, v := range ra.V {
				mix(uint64(v))
			}
			w.st.Obs = h
		}
		definitive := err != sipsp.ErrHdrMoreBytes
		// the library keeps to the window of the caller's arrays (C13; after a reset also C12)
		if w.mon.C13 || w.mon.C12 || w.mon == (Monitors{}) {
			if ac, ok := cs.drv.(sut.ArrayChecker); ok {
				if d := ac.Arrays(); d != "" {
					prop := "C13"
					if w.mon.C12 {
						prop = "C12"
					} else if !w.mon.C13 {
						// C04 check: storing behind the window the caller handed over reaches
						// memory that belongs to someone else (isolation)
						prop = "C04"
					}
					w.fail(cs, prop, "caller-array", fmt.Sprintf("%s call #%d (pooled=%v): %s", kind, cs.calls, cs.c.Obj >= 0, d))
					return
				}
			}
		}

		// C01 / C02: one call on a brand-new object given the same prefix
		var oneRet int
		var oneErr sipsp.ErrorHdr
		haveOne := false
		if w.mon.Resume || w.mon.C03 {
			ocfg := cs.c.Cfg
			if cc, ok := cs.drv.(interface{ CallCfg() sut.Cfg }); ok {
				ocfg = cc.CallCfg() // a receiver may pass other flags on a later call of the same message
			}
			w.oneShot = sut.Renew(w.oneShot, ocfg)
			sh := w.oneShot
			var p string
			// (an accumulating object's earlier header bodies are complete in this prefix: the
			// brand-new object parses each of them with one call first)
			for _, hs := range cs.hist {
				if _, _, p = guarded(sh, buf, hs, false); p != "" {
					break
				}
			}
			if p == "" {
				oneRet, oneErr, p = guarded(sh, buf, cs.start, eofCall)
			}
			haveOne = true
			rb := &w.recB
			rb.Reset(cs.start, len(buf))
			if p == "" {
				p = guardedSnap(sh, rb, buf)
			}
			if p != "" {
				w.fail(cs, "C04", "panic", fmt.Sprintf("%s one-shot call panicked: %s", kind, p))
				return
			}
			if rb.OOB != "" {
				w.fail(cs, "C04", "field-deref", fmt.Sprintf("%s one-shot verdict %d %q: field out of range: %s", kind, oneErr, oneErr, rb.OOB))
				return
			}
			if w.mon.Resume {
				if oneErr != err || oneRet != ret {
					w.fail(cs, resumeProp(kind), "resume-verdict",
						fmt.Sprintf("%s resumed call #%d on prefix len %d (start %d, continued at %d) = (%d,%d %q) but one-shot on the same prefix = (%d,%d %q)",
							kind, cs.calls, len(buf), cs.start, prevCont, ret, err, err, oneRet, oneErr, oneErr))
					return
				}
				if definitive && !sut.EqualV(ra.V, rb.V) {
					w.fail(cs, resumeProp(kind), "resume-values", w.diff(cs.drv, sh, buf, cs.start, cs.start, buf,
						fmt.Sprintf("%s resumed (%d calls) vs one-shot, verdict (%d,%d %q)", kind, cs.calls, ret, err, err)))
					return
				}
			}
		}

		// lock-step shadows (C11 / C12 / C13)
		for i := range cs.shadows {
			s := &cs.shadows[i]
			sbuf := buf[s.shift:]
			if s.what != "C11" {
				sbuf = buf
			}
			sret, serr, p := guarded(s.drv, sbuf, s.cont, eofCall)
			if p != "" {
				w.fail(cs, "C04", "panic", fmt.Sprintf("%s %s-shadow call panicked: %s", kind, s.what, p))
				return
			}
			shiftNow := 0
			if s.what == "C11" {
				shiftNow = s.shift
			}
			switch s.what {
			case "C11", "C12":
				if serr != err || sret+shiftNow != ret {
					w.fail(cs, s.what, "lockstep-verdict",
						fmt.Sprintf("%s call #%d: receiver (start offset %d, pooled=%v) = (%d,%d %q); %s shadow = (%d+%d,%d %q)",
							kind, cs.calls, cs.start, cs.c.Obj >= 0, ret, err, err, s.what, sret, shiftNow, serr, serr))
					return
				}
				rb := &w.recB
				rb.Reset(cs.start-shiftNow, len(sbuf))
				if p := guardedSnap(s.drv, rb, sbuf); p != "" {
					w.fail(cs, "C04", "panic-readback", fmt.Sprintf("%s %s-shadow: reading results panicked: %s", kind, s.what, p))
					return
				}
				if !sut.EqualV(ra.V, rb.V) {
					w.fail(cs, s.what, "lockstep-values", w.diff(cs.drv, s.drv, buf, cs.start, cs.start-shiftNow, sbuf,
						fmt.Sprintf("%s call #%d verdict (%d,%d %q): receiver vs %s shadow", kind, cs.calls, ret, err, err, s.what)))
					return
				}
			case "C13":
				if d := oracle.C13(cs.c.Cfg, cs.drv, s.drv, buf, ret, err, sret, serr, definitive); d != "" {
					w.fail(cs, "C13", "capacity", fmt.Sprintf("%s call #%d caps(h=%d,c=%d,p=%d): %s", kind, cs.calls, cs.c.Cfg.HdrCap, cs.c.Cfg.ConCap, cs.c.Cfg.ParCap, d))
					return
				}
			}
			s.cont = sret
		}

		// C10: the expires summary accessor, at every call
		if w.mon.C10 {
			var pv *sipsp.PHdrVals
			switch x := cs.drv.(type) {
			case *sut.MsgD:
				pv = &x.M.PV
			case *sut.HeadersD:
				pv = &x.PV
			case *sut.HdrLineD:
				pv = &x.PV
			}
			if pv != nil {
				if d := oracle.C10Summary(pv); d != "" {
					w.fail(cs, "C10", "numeric", d)
					return
				}
			}
		}

		// C06: framing reference model, at every call ("success exactly when n bytes follow")
		if md, ok := cs.drv.(*sut.MsgD); ok && w.mon.C06 && cs.msgIdx >= 0 && !cs.tainted {
			if d := oracle.C06Call(&cs.c.Msgs[cs.msgIdx], cs.c.Cfg, &md.M, buf, cs.start, ret, err, eofCall); d != "" {
				w.fail(cs, "C06", "framing-model", d)
				return
			}
			if w.st != nil {
				w.st.c06(&cs.c.Msgs[cs.msgIdx], cs.c.Cfg, err, eofCall)
			}
		}

		if !definitive {
			cs.cont = ret
			if w.st != nil {
				w.st.suspend(cs, buf)
			}
			if cs.eof {
				// stream ended with the unit unfinished
				w.unitDone(cs, buf, ret, err, false)
				cs.closed = true
			}
			return
		}

		// C03: the verdict must survive any continuation
		if w.mon.C03 && haveOne && !(eofCall && cs.c.Cfg.EOFFlag) {
			if d := w.checkForks(cs, buf, oneRet, oneErr); d != "" {
				w.fail(cs, "C03", "premature-verdict", d)
				return
			}
		}

		w.unitDone(cs, buf, ret, err, true)
		if w.v != nil {
			return
		}
		if cs.drv.Continues(err) && ret <= cs.start {
			// a unit that consumed nothing cannot be followed by another one at the same place
			cs.closed = true
			cs.drv = nil
			return
		}
		if cs.drv.Continues(err) && cs.drv.Accumulates() {
			// next header body into the same object: no reset, shadows stay, no compaction
			// (the object holds offsets into this buffer)
			cs.hist = append(cs.hist, cs.start)
			cs.start, cs.cont, cs.calls = ret, ret, 0
			cs.unit++
			if w.st != nil {
				w.st.probe("accumulated-header-body")
			}
			continue
		}
		if cs.drv.Continues(err) {
			cs.start = ret
			cs.cont = ret
			cs.drv = nil
			cs.unit++
			if cs.c.Compact && cs.start > 0 {
				// buffer policy "compact": drop what was consumed
				rest := append([]byte(nil), cs.full[cs.start:]...)
				cs.dropped += cs.start - cs.junk
				cs.L -= cs.start
				cs.junk = 0
				cs.full = rest
				cs.start = 0
				cs.cont = 0
			}
			continue
		}
		cs.closed = true
		cs.drv = nil
	}
}

func (w *World) diff(a, b sut.Driver, bufA []byte, baseA, baseB int, bufB []byte, head string) string {
	var ra, rb sut.Rec
	ra.Verbose, rb.Verbose = true, true
	ra.Reset(baseA, len(bufA))
	rb.Reset(baseB, len(bufB))
	guardedSnap(a, &ra, bufA)
	guardedSnap(b, &rb, bufB)
	return head + ": " + strings.Join(sut.Diff(&ra, &rb, 6), "; ")
}

// checkForks: one-shot on prefix+suffix must repeat the one-shot result on
// the prefix (C03), for the simulator's adversarial continuations and for the
// bytes the peer really sends next.
func (w *World) checkForks(cs *connState, buf []byte, baseRet int, baseErr sipsp.ErrorHdr) string {
	exempt := false
	base := sut.New(cs.c.Cfg)
	for _, hs := range cs.hist {
		guarded(base, buf, hs, false)
	}
	guarded(base, buf, cs.start, false)
	if m, ok := base.(*sut.MsgD); ok {
		// body extent of a message without Content-Length parsed with neither
		// skip-body nor require-CL is "rest of the buffer" by definition
		if baseErr == 0 && !m.M.PV.CLen.Parsed() && cs.c.Cfg.Flags&3 == 0 {
			exempt = true
		}
	}
	var rbase sut.Rec
	rbase.MaskBody = exempt
	rbase.MaskBuf = true // msg.Buf is "a reference to buf[]": its extent follows the buffer, not the message
	rbase.Reset(cs.start, len(buf))
	guardedSnap(base, &rbase, buf)

	rest := cs.full[cs.L:]
	try := func(suffix []byte, what string) string {
		ext := make([]byte, 0, len(buf)+len(suffix))
		ext = append(ext, buf...)
		ext = append(ext, suffix...)
		if len(ext) > 65535 {
			return ""
		}
		sh := sut.New(cs.c.Cfg)
		for _, hs := range cs.hist {
			guarded(sh, ext, hs, false)
		}
		r, e, p := guarded(sh, ext, cs.start, false)
		if p != "" {
			return fmt.Sprintf("one-shot on prefix+%s panicked: %s", what, p)
		}
		if w.st != nil {
			w.st.forks++
		}
		if e != baseErr || (r != baseRet && !exempt) {
			return fmt.Sprintf("%s on prefix len %d (start %d) = (%d,%d %q); followed by %s %q = (%d,%d %q)",
				cs.c.Cfg.Kind, len(buf), cs.start, baseRet, baseErr, baseErr, what, clip(suffix, 12), r, e, e)
		}
		var rr sut.Rec
		rr.MaskBody = exempt
		rr.MaskBuf = true
		rr.Reset(cs.start, len(ext))
		guardedSnap(sh, &rr, ext)
		if !sut.EqualV(rbase.V, rr.V) {
			var va, vb sut.Rec
			va.Verbose, vb.Verbose = true, true
			va.MaskBody, vb.MaskBody = exempt, exempt
			va.MaskBuf, vb.MaskBuf = true, true
			va.Reset(cs.start, len(buf))
			vb.Reset(cs.start, len(ext))
			guardedSnap(base, &va, buf)
			guardedSnap(sh, &vb, ext)
			return fmt.Sprintf("%s on prefix len %d verdict (%d,%d %q) values changed when followed by %s %q: %s",
				cs.c.Cfg.Kind, len(buf), baseRet, baseErr, baseErr, what, clip(suffix, 12), strings.Join(sut.Diff(&va, &vb, 6), "; "))
		}
		return ""
	}
	for _, f := range w.sc.Forks {
		if d := try(f, "fork"); d != "" {
			return d
		}
	}
	for _, n := range [...]int{1, 2, 3, 5, len(rest)} {
		if n <= len(rest) && n > 0 {
			if d := try(rest[:n], "the peer's next bytes"); d != "" {
				return d
			}
		}
	}
	return ""
}

func clip(b []byte, n int) []byte {
	if len(b) > n {
		return b[:n]
	}
	return b
}

// unitDone runs the result oracles and records the unit in the history.
func (w *World) unitDone(cs *connState, buf []byte, ret int, err sipsp.ErrorHdr, definitive bool) {
	ur := oracle.UnitResult{
		Conn: cs.idx, Unit: cs.unit, Start: cs.start, Ret: ret, Err: err, Definitive: definitive,
		Calls: cs.calls, BufLen: len(buf), EOF: cs.eof, MsgIdx: cs.msgIdx,
		StreamStart: cs.start - cs.junk + cs.dropped,
	}
	md, isMsg := cs.drv.(*sut.MsgD)
	if isMsg && definitive {
		if w.mon.C05 && err == 0 {
			if d := oracle.C05(&md.M, buf, cs.start, ret); d != "" {
				w.fail(cs, "C05", "containment", d)
				return
			}
		}
		if w.mon.C10 {
			if d := oracle.C10Msg(&md.M, buf, err, cs.c.Clean && !cs.tainted); d != "" {
				w.fail(cs, "C10", "numeric", d)
				return
			}
		}
		if w.mon.C19 && err == 0 {
			ur.Sig = oracle.TakeSig(&md.M, cs.c.Cfg)
		}
		if w.mon.C11 && err == 0 {
			// relocation clause: reported URIs follow the buffer through a history of moves
			// (positions are a function of the scenario: start offset, junk, stream length)
			mv := []int{cs.start, (cs.start*7 + len(buf)) % 60000, 0, (len(cs.c.Junk)*131 + ret) % 65000, 65535 - 600 + cs.start%300, ret}
			m := &md.M
			uris := []struct {
				n string
				f sipsp.PField
			}{{"request", m.FL.URI}, {"From", m.PV.From.URI}, {"To", m.PV.To.URI}}
			for i := 0; i < m.PV.Contacts.VNo() && i < len(m.PV.Contacts.Vals) && i < 3; i++ {
				uris = append(uris, struct {
					n string
					f sipsp.PField
				}{fmt.Sprintf("Contact[%d]", i), m.PV.Contacts.Vals[i].URI})
			}
			for _, x := range uris {
				if int(x.f.Offs)+int(x.f.Len) > len(buf) {
					continue
				}
				if d := oracle.C11URIMoves(x.n, buf, x.f, mv); d != "" {
					w.fail(cs, "C11", "uri-relocation", d)
					return
				}
				if w.st != nil && x.f.Len >= 5 {
					w.st.probe("uri-relocation-history")
				}
			}
		}
	}
	if !isMsg && definitive && w.mon.C10 {
		if d := oracle.C10Sub(cs.c.Cfg, cs.drv, buf, err, cs.c.Clean && !cs.tainted); d != "" {
			w.fail(cs, "C10", "numeric", d)
			return
		}
	}
	if isMsg && w.mon.C06 && cs.msgIdx >= 0 && !cs.tainted && definitive && err == 0 {
		if d := oracle.C06Alone(&cs.c.Msgs[cs.msgIdx], cs.c.Cfg, md, buf, cs.start, ret, cs.eof); d != "" {
			w.fail(cs, "C06", "pipelined-vs-alone", d)
			return
		}
	}
	if w.st != nil {
		w.st.unit(cs, &ur)
	}
	cs.results = append(cs.results, ur)
	// C04 check only, after a SUCCESS verdict (after an error the object is dead until reset):
	// a receiver that forgets to reset and calls the finished object again (at the
	// returned offset, or further on - e.g. after skipping a body itself) must still get offsets
	// that obey the rules, or an error verdict. The object is discarded / reset afterwards anyway.
	if definitive && err == sipsp.ErrHdrOk && w.mon == (Monitors{}) && cs.c.Cfg.Kind != "uri" && !(cs.drv.Accumulates() && cs.drv.Continues(err)) {
		// (one call only: what it leaves behind is not a finished object any more)
		for _, o2 := range [...]int{ret + (len(buf)-ret+1)/2} {
			if o2 < ret || o2 > len(buf) {
				continue
			}
			r2, e2, pan := guarded(cs.drv, buf, o2, cs.eof)
			if pan != "" {
				w.fail(cs, "C04", "panic", fmt.Sprintf("%s called again after verdict %d %q (no reset) at offset %d panicked: %s", cs.c.Cfg.Kind, err, err, o2, pan))
				return
			}
			// (no ordering rule here: what such a call returns beyond "an offset inside the buffer" is not specified)
			if r2 < 0 || r2 > len(buf) {
				w.fail(cs, "C04", "offset-after-finish", fmt.Sprintf("%s called again after verdict %d %q (no reset) with offset %d on a buffer of %d returned (%d,%d %q)", cs.c.Cfg.Kind, err, err, o2, len(buf), r2, e2, e2))
				return
			}
			if w.st != nil {
				w.st.probe("re-call-after-finish")
			}
		}
	}
}

// finish runs the end-of-history checks.
func (w *World) finish() {
	if w.v != nil {
		return
	}
	if w.mon.C06 {
		for _, cs := range w.conns {
			if cs.c.Cfg.Kind != "msg" || cs.c.Msgs == nil || cs.tainted {
				continue
			}
			if d := oracle.C06History(cs.results); d != "" {
				w.fail(cs, "C06", "framing-history", d)
				return
			}
		}
	}
	if w.mon.C19 {
		groups := map[int][]oracle.SigObs{}
		var order []int
		for _, cs := range w.conns {
			for i := range cs.results {
				// group members are the messages the peers sent as variants, not
				// whatever a skipped body happens to parse as afterwards
				if cs.results[i].Sig != nil && cs.results[i].MsgIdx >= 0 {
					g := cs.c.Group
					if _, ok := groups[g]; !ok {
						order = append(order, g)
					}
					o := *cs.results[i].Sig
					o.Conn = cs.idx
					o.Variant = cs.c.Variant
					if cs.results[i].MsgIdx >= 0 {
						o.Spec = &cs.c.Msgs[cs.results[i].MsgIdx]
					}
					groups[g] = append(groups[g], o)
				}
			}
		}
		for _, g := range order {
			if w.st != nil {
				for _, o := range groups[g] {
					w.st.Triples[fmt.Sprintf("variant=%s fits=%v request=%v sigerr=%d hdrsiglen=%d", o.Variant, o.Cap >= o.HdrN, o.Request, o.Err, o.Sig.HdrSigLen)] = struct{}{}
				}
			}
			if d, conn := oracle.C19Group(groups[g]); d != "" {
				w.fail(w.conns[conn], "C19", "signature", d)
				return
			}
		}
	}
}
