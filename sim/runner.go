package sim

import (
	"encoding/json"
	"fmt"
	"io/ioutil"
	"os"
	"regexp"
	"sync/atomic"
	"time"
)

// MonitorsFor: the monitors a property's check enables (the crash monitor is
// always on and reports as C04).
func MonitorsFor(prop string) Monitors {
	switch prop {
	case "C01", "C02":
		return Monitors{Resume: true}
	case "C03":
		return Monitors{C03: true}
	case "C04":
		return Monitors{}
	case "C05":
		return Monitors{C05: true}
	case "C06":
		return Monitors{C06: true}
	case "C10":
		return Monitors{C10: true}
	case "C11":
		return Monitors{C11: true}
	case "C12":
		return Monitors{C12: true}
	case "C13":
		return Monitors{C13: true}
	case "C19":
		return Monitors{C19: true}
	}
	return Monitors{}
}

// KnownFinding is an open, recorded defect: a predicate over the violation
// record (never just the property id).
type KnownFinding struct {
	ID       string `json:"id"`
	Status   string `json:"status"` // "open" | "fixed"
	Property string `json:"property"`
	Monitor  string `json:"monitor"`
	Kind     string `json:"kind,omitempty"`   // driver kind the witness runs through ("" = any)
	Detail   string `json:"detail,omitempty"` // regexp the violation detail must match
	What     string `json:"what"`
	Commit   string `json:"commit,omitempty"`
	Witness  string `json:"witness,omitempty"`
	re       *regexp.Regexp
}

type KnownFile struct {
	Findings []KnownFinding `json:"findings"`
}

func LoadKnown(path string) ([]KnownFinding, error) {
	b, err := ioutil.ReadFile(path)
	if err != nil {
		return nil, err
	}
	var kf KnownFile
	if err := json.Unmarshal(b, &kf); err != nil {
		return nil, err
	}
	for i := range kf.Findings {
		if kf.Findings[i].Detail != "" {
			re, err := regexp.Compile(kf.Findings[i].Detail)
			if err != nil {
				return nil, fmt.Errorf("known finding %s: %v", kf.Findings[i].ID, err)
			}
			kf.Findings[i].re = re
		}
	}
	return kf.Findings, nil
}

func matchKnown(kf []KnownFinding, sc *Scenario, v *Violation) *KnownFinding {
	kind := ""
	if v.Conn >= 0 && v.Conn < len(sc.Conns) {
		kind = sc.Conns[v.Conn].Cfg.Kind
	} else if v.Conn >= 0 && v.Conn < len(sc.Tasks) {
		kind = taskName(&sc.Tasks[v.Conn])
	}
	if len(sc.Tasks) > 0 && v.Conn >= 0 && v.Conn < len(sc.Tasks) {
		kind = taskName(&sc.Tasks[v.Conn])
	}
	for i := range kf {
		k := &kf[i]
		if k.Status != "open" || k.Property != v.Prop || k.Monitor != v.Monitor {
			continue
		}
		if k.Kind != "" && k.Kind != kind {
			continue
		}
		if k.re != nil && !k.re.MatchString(v.Detail) {
			continue
		}
		return k
	}
	return nil
}

type RunCfg struct {
	Prop       string
	Tier       string
	Seeds      []uint64
	RunsPer    int     // runs per seed
	MaxSeconds float64 // wall-clock safety cap for the whole batch (0 = none)
	Known      []KnownFinding
	// A process runs the indices n = Offset + j*Stride (n counts over all
	// seeds). Worlds never run concurrently inside one process: concurrent
	// worlds would be an uncontrolled source of interleaving (any cross-world
	// interference through package-level state of the library would show up
	// as an unreplayable failure). The cores are used by child processes.
	Stride, Offset int
	StopFile       string // created when a violation is found; polled by the other children
}

type Found struct {
	Seed  uint64
	Index uint64
	V     *Violation
	Sc    *Scenario
	// position in the child's run order: the worlds this process executed before this one are
	// N-Stride, N-2*Stride, ... (needed when a failure turns out to depend on them)
	N      uint64
	Stride int
}

type RunResult struct {
	Stats     *Stats
	Found     *Found // first (lowest seed order, lowest index) violation not covered by a known finding
	KnownHits map[string]int64
	KnownEx   map[string]string
	Runs      int64
	Wall      float64
	TimedOut  bool
	Stalled   string // a run that stopped making progress (infrastructure trouble, exit 2)
}

// Run executes this process's share of the runs, one world at a time.
func Run(cfg RunCfg) *RunResult {
	if cfg.Stride <= 0 {
		cfg.Stride = 1
	}
	mon := MonitorsFor(cfg.Prop)
	res := &RunResult{Stats: NewStats(), KnownHits: map[string]int64{}, KnownEx: map[string]string{}}
	t0 := time.Now()
	total := uint64(len(cfg.Seeds)) * uint64(cfg.RunsPer)
	var progress int64 // unix nanos of the last finished run
	var current uint64 // n+1 of the run in progress
	done := make(chan struct{})
	go func() {
		defer close(done)
		st := res.Stats
		for n := uint64(cfg.Offset); n < total; n += uint64(cfg.Stride) {
			seed := cfg.Seeds[n/uint64(cfg.RunsPer)]
			idx := n % uint64(cfg.RunsPer)
			atomic.StoreUint64(&current, n+1)
			sc := Build(cfg.Prop, seed, idx, cfg.Tier)
			st.Runs++
			if len(sc.Events) > 0 {
				st.SimTimeUs += sc.Events[len(sc.Events)-1].At
			}
			if len(st.Samples) < 1 && idx%97 == 3 {
				if b, err := json.Marshal(sampleOf(sc)); err == nil {
					st.Samples = append(st.Samples, b)
				}
			}
			v := Exec(sc, mon, st)
			atomic.StoreInt64(&progress, time.Now().UnixNano())
			if v != nil {
				if k := matchKnown(cfg.Known, sc, v); k != nil {
					res.KnownHits[k.ID]++
					if _, ok := res.KnownEx[k.ID]; !ok {
						res.KnownEx[k.ID] = v.String()
					}
					continue
				}
				res.Found = &Found{Seed: seed, Index: idx, V: v, Sc: sc, N: n, Stride: cfg.Stride}
				if cfg.StopFile != "" {
					ioutil.WriteFile(cfg.StopFile, []byte("stop"), 0644)
				}
				return
			}
			if st.Runs%64 == 0 {
				if cfg.MaxSeconds > 0 && time.Since(t0).Seconds() > cfg.MaxSeconds {
					res.TimedOut = true
					return
				}
				if cfg.StopFile != "" {
					if _, err := os.Stat(cfg.StopFile); err == nil {
						return
					}
				}
			}
		}
	}()
	// watchdog: a run that makes no progress for a long time is either a
	// non-terminating library call or infrastructure trouble; the parent
	// decides which by re-running that world alone
	tick := time.NewTicker(2 * time.Second)
	defer tick.Stop()
	atomic.StoreInt64(&progress, time.Now().UnixNano())
wait:
	for {
		select {
		case <-done:
			break wait
		case <-tick.C:
			now := time.Now().UnixNano()
			p := atomic.LoadInt64(&progress)
			c := atomic.LoadUint64(&current)
			if c > 0 && now-p > int64(StallSeconds)*int64(time.Second) {
				n := c - 1
				res.Stalled = fmt.Sprintf("%d:%d", cfg.Seeds[n/uint64(cfg.RunsPer)], n%uint64(cfg.RunsPer))
				if cfg.StopFile != "" {
					ioutil.WriteFile(cfg.StopFile, []byte("stop"), 0644)
				}
				break wait
			}
		}
	}
	res.Wall = time.Since(t0).Seconds()
	res.Runs = res.Stats.Runs
	return res
}

// StallSeconds: how long one world may run before the watchdog gives up on it.
var StallSeconds = 30

// sampleOf is a compact, readable rendering of a scenario for the evidence file.
func sampleOf(sc *Scenario) map[string]interface{} {
	m := map[string]interface{}{"seed": sc.Seed, "index": sc.Index}
	var conns []map[string]interface{}
	for i := range sc.Conns {
		c := &sc.Conns[i]
		s := c.Stream()
		txt := string(clip(s, 160))
		conns = append(conns, map[string]interface{}{
			"driver": c.Cfg.Kind, "flags": c.Cfg.Flags, "eof_flag": c.Cfg.EOFFlag, "hdr_cap": c.Cfg.HdrCap, "con_cap": c.Cfg.ConCap,
			"junk_len": len(c.Junk), "stream_len": len(s), "structured_msgs": len(c.Msgs), "pooled_obj": c.Obj, "compact": c.Compact,
			"stream_head": fmt.Sprintf("%q", txt),
		})
	}
	m["conns"] = conns
	var evs []string
	for i, e := range sc.Events {
		if i >= 24 {
			evs = append(evs, fmt.Sprintf("... %d more", len(sc.Events)-i))
			break
		}
		switch e.Op {
		case EvDeliver:
			x := fmt.Sprintf("t=%dus conn%d deliver upto %d", e.At, e.Conn, e.Upto)
			if e.EOF {
				x += " +FIN"
			}
			evs = append(evs, x)
		case EvCorrupt:
			evs = append(evs, fmt.Sprintf("conn%d corrupt pos %d := %#x", e.Conn, e.Pos, e.Byte))
		default:
			evs = append(evs, fmt.Sprintf("t=%dus conn%d %s", e.At, e.Conn, e.Op))
		}
	}
	m["events"] = evs
	if len(sc.Tasks) > 0 {
		var ts []string
		for i := range sc.Tasks {
			ts = append(ts, fmt.Sprintf("%s(%q,%q,%d,%d,%d)", taskName(&sc.Tasks[i]), clip(sc.Tasks[i].A, 40), clip(sc.Tasks[i].B, 40), sc.Tasks[i].N1, sc.Tasks[i].N2, sc.Tasks[i].N3))
		}
		m["tasks"] = ts
		m["sched"] = sc.Sched
	}
	if len(sc.Forks) > 0 {
		m["forks"] = len(sc.Forks)
	}
	return m
}
