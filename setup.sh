#!/bin/sh
# Builds the harness once from files on disk (offline); warms the Go build cache.
cd "$(dirname "$0")" || exit 2
export GOFLAGS=-mod=mod GOPROXY=off GOSUMDB=off GOTOOLCHAIN=local
mkdir -p .bin out evidence
go build -o .bin/simcheck ./cmd/simcheck && go build -o .bin/yieldgen ./cmd/yieldgen && echo "setup ok"
