#!/bin/sh
# c04.sh <quick|thorough>
# quick: passes (1) and (2) with small budgets; thorough: all three.
# C04 passes: (1) hostile connections, direct calls and call-level task interleaving on
# the real build; (2) loop-level interleaving on a generated yield-instrumented scratch copy of
# /repo's working tree; (3) free-running goroutines under the race detector.
cd "$(dirname "$0")" || exit 2
tier=${1:-thorough}
if [ "$tier" = quick ]; then nyield=1; yruns=150000; ysecs=60; else nyield=4; yruns=500000; ysecs=400; fi
export GOFLAGS=-mod=mod GOPROXY=off GOSUMDB=off GOTOOLCHAIN=local
mkdir -p .bin out evidence
scratch=$(mktemp -d /tmp/verif-c04.XXXXXX) || exit 2
trap 'rm -rf "$scratch"' EXIT INT TERM
fail=0

# (2) yield build
go build -o .bin/yieldgen ./cmd/yieldgen || { echo "INFRASTRUCTURE: yieldgen build failed"; exit 2; }
./.bin/yieldgen /repo "$scratch/sipsp" || { echo "INFRASTRUCTURE: yieldgen failed"; exit 2; }
sed "s#=> /repo#=> $scratch/sipsp#" go.mod > "$scratch/go.mod"
cp go.sum "$scratch/go.sum"
if ! go build -modfile="$scratch/go.mod" -tags verifyield -o "$scratch/simcheck-yield" ./cmd/simcheck 2>"$scratch/build.log"; then
	echo "INFRASTRUCTURE: yield-instrumented build failed:"; cat "$scratch/build.log"; exit 2
fi
# one world at a time per process (a single package-level hook); simcheck itself fans the runs out
# over one child process per core
"$scratch/simcheck-yield" -prop C04 -tier $tier -mode yield -tasks-only -runs $yruns -seeds $nyield -secs $ysecs -evidence out/C04-yield.json -out out
rc=$?
[ $rc -eq 1 ] && fail=1
[ $rc -ge 2 ] && { echo "INFRASTRUCTURE: yield pass exit $rc"; exit 2; }

# (3) race-detector pass (auxiliary: the interleaving is not chosen by the simulator here)
if [ $fail -eq 0 ] && [ "$tier" = thorough ]; then
	if ! go build -race -o "$scratch/simcheck-race" ./cmd/simcheck 2>"$scratch/build.log"; then
		echo "INFRASTRUCTURE: race build failed:"; cat "$scratch/build.log"; exit 2
	fi
	GORACE="halt_on_error=1 exitcode=66" "$scratch/simcheck-race" -prop C04 -tier thorough -mode race -tasks-only -runs 60000 -seeds 2 -secs 300 -evidence out/C04-race.json >"$scratch/race.log" 2>&1
	rc=$?
	grep -v '^BUG: sipsp' "$scratch/race.log" | tail -n 40
	if [ $rc -eq 66 ] || grep -q 'WARNING: DATA RACE' "$scratch/race.log"; then
		mkdir -p out; cp "$scratch/race.log" out/C04-race-report.txt
		echo "data race reported between independent tasks (report: out/C04-race-report.txt)"
		echo "VIOLATION property=C04 replay=$(pwd)/out/C04-race-report.txt"
		fail=1
	elif [ $rc -eq 1 ]; then
		fail=1
	elif [ $rc -ge 2 ]; then
		echo "INFRASTRUCTURE: race pass exit $rc"; exit 2
	fi
fi

# (1) main pass last: it writes evidence/C04.json and embeds the sub-pass coverage
go build -o .bin/simcheck ./cmd/simcheck || { echo "INFRASTRUCTURE: harness build failed"; exit 2; }
embed=out/C04-yield.json
[ "$tier" = thorough ] && embed=$embed,out/C04-race.json
./.bin/simcheck -prop C04 -tier $tier -embed $embed
rc=$?
[ $rc -ge 2 ] && exit 2
[ $rc -eq 1 ] && fail=1
exit $fail
