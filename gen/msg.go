package gen

import (
	"strconv"
	"strings"
)

// Content-Length relation to the body the sender actually writes.
const (
	CLExact    = iota // declared == len(body)
	CLNone            // no Content-Length header
	CLSmaller         // declared < len(body) (rest looks like the next message's start - a lying peer)
	CLLarger          // declared > len(body)
	CLHuge            // declared > 2^24 or > 9 digits: must be rejected
	CLDupEqual        // two equal Content-Length headers
	CLAny             // random pick of the above
)

type MsgOpts struct {
	Request     int  // -1 any, 0 reply, 1 request
	CL          int  // CL* above
	MaxHdrs     int  // upper bound on the number of header lines (>= 1)
	BodyMax     int  // maximum body length
	WildNumbers bool // boundary digit strings in numeric positions (may make the message unacceptable)
	Plain       bool // no folds, CRLF only, no odd whitespace (for readable minimal cases)
	ForceMethod string
	NoExtras    bool // only the fingerprinted / mandatory headers
	ValidStatus bool // replies use status codes 100..699 only
	ManyHdrs    bool // 10..50 additional header lines (long header blocks)
	ManyMax     int  // upper bound for ManyHdrs (0: 50)
	Canonical   bool // first lines exactly as RFC 3261 writes them: version "SIP/2.0", status 100..699
	VerCase     bool // with Canonical: the version of a reply may still vary in letter case (a reply in any case: C08)
}

type hdrKind struct {
	long, compact string
}

var knownHdrs = []hdrKind{
	{"From", "f"}, {"To", "t"}, {"Call-ID", "i"}, {"CSeq", ""}, {"Via", "v"},
	{"Max-Forwards", ""}, {"Content-Length", "l"}, {"Contact", "m"}, {"Expires", ""},
	{"User-Agent", ""}, {"Record-Route", ""}, {"Route", ""}, {"P-Asserted-Identity", ""},
}

func (g *G) hdrName(k hdrKind) string {
	n := k.long
	if k.compact != "" && g.R.Chance(1, 4) {
		n = k.compact
	}
	return g.caseVariant(n)
}

func (g *G) valueFor(kind string, o *MsgOpts) string {
	switch kind {
	case "from", "to":
		v := g.NameAddr(false)
		if !strings.Contains(strings.ToLower(v), "tag") && g.R.Chance(2, 3) {
			v += ";tag=" + g.TagVal()
		}
		return v
	case "call-id":
		return g.CallIDVal()
	case "cseq":
		return g.CSeqVal(o.WildNumbers)
	case "via":
		return g.ViaVal()
	case "max-forwards":
		return strconv.Itoa(g.R.Intn(256))
	case "contact":
		return g.NameAddrList(4, true)
	case "expires":
		if o.WildNumbers && g.R.Chance(1, 2) {
			return g.Digits()
		}
		if g.R.Chance(1, 4) {
			// valid, but beyond what Content-Length would allow
			return strconv.FormatUint(uint64(1<<24)+1+g.R.U64()%(uint64(1<<32)-(1<<24)-1), 10)
		}
		return g.SmallNum(100000)
	case "user-agent":
		return g.Generic()
	case "record-route", "route":
		return g.NameAddrList(3, false)
	case "p-asserted-identity":
		v := g.NameAddrList(3, false)
		return v
	}
	return g.Generic()
}

func (g *G) mkHdr(name, val string, o *MsgOpts) HdrSpec {
	h := HdrSpec{Name: name, Val: val, Term: "\r\n", Kind: KnownKind(name)}
	if o.Plain {
		h.Lead = " "
		return h
	}
	if g.R.Chance(1, 10) {
		h.Pre = g.WS(2)
	}
	h.Lead = g.LWS(false)
	if g.R.Chance(1, 8) {
		h.Trail = g.WS(3)
	}
	h.Term = g.Term()
	if !g.Strict && h.Kind != "" && g.R.Chance(1, 50) {
		// a typed header (Expires, CSeq, From ...) whose value is empty or blank
		h.Val, h.Trail = "", ""
		h.Lead = g.R.Pick([]string{"", " ", "  ", "\t", " \t "})
	}
	return h
}

// fixTerms removes the terminator ambiguities a sender must avoid: a lone CR
// must not be followed by LF (it would read as CRLF), and an empty-valued
// header's lead fold must not swallow the terminator.
func fixTerms(m *MsgSpec) {
	nextStartsLF := func(s string) bool { return len(s) > 0 && s[0] == '\n' }
	if m.FTerm == "\r" {
		// next is a header name: never LF
	}
	for i := range m.Hdrs {
		h := &m.Hdrs[i]
		if h.Term == "\r" {
			if i == len(m.Hdrs)-1 && nextStartsLF(m.Blank) {
				h.Term = "\r\n"
			}
		}
		if h.Val == "" {
			// "Name: <fold>" + terminator: keep it simple, no fold in front of an empty value
			if strings.ContainsAny(h.Lead, "\r\n") {
				h.Lead = " "
			}
		}
	}
	if m.Blank == "\r" && len(m.Body) > 0 && m.Body[0] == '\n' {
		m.Blank = "\r\n"
	}
}

// Msg builds one structured message.
func (g *G) Msg(o MsgOpts) MsgSpec {
	var m MsgSpec
	req := o.Request
	if req < 0 {
		req = 1
		if g.R.Chance(1, 3) {
			req = 0
		}
	}
	method := o.ForceMethod
	if method == "" {
		method = g.Method()
	}
	if req == 1 && o.Canonical {
		m.FLine = method + " " + g.URI(false) + " SIP/2.0"
	} else if req == 1 {
		m.FLine = method + " " + g.URI(false) + " " + g.R.Pick([]string{"SIP/2.0", "SIP/2.0", "sip/2.0", "SIP/3.0"})
	} else {
		code := g.R.Intn(1000)
		if o.ValidStatus || o.Canonical {
			code = g.R.Range(100, 699)
		}
		if o.VerCase && g.R.Chance(1, 6) {
			// three digits are three digits: a status line is a reply whatever its number (C08)
			code = g.R.PickInt(0, 0, 1, 99, 7)
		}
		reason := ""
		switch g.R.Intn(4) {
		case 0:
		case 1:
			reason = "OK"
		default:
			reason = g.tok(1, 8) + " " + g.tok(0, 8)
		}
		st := []byte{byte('0' + code/100), byte('0' + code/10%10), byte('0' + code%10)}
		if o.WildNumbers && g.R.Chance(1, 10) {
			// a status "number" with a non-digit in it: must be rejected
			st[g.R.Intn(3)] = ":;A/ z~"[g.R.Intn(7)]
		}
		ver := g.R.Pick([]string{"SIP/2.0", "SIP/2.0", "sip/2.0", "Sip/2.0"})
		if o.Canonical && !o.VerCase {
			ver = "SIP/2.0"
		}
		m.FLine = ver + " " + string(st) + " " + reason
	}
	m.FTerm = "\r\n"
	m.Blank = "\r\n"
	if !o.Plain {
		m.FTerm = g.Term()
		m.Blank = g.Term()
	}

	// body
	bl := 0
	if o.BodyMax > 0 && g.R.Chance(2, 3) {
		if g.R.Chance(1, 10) {
			bl = g.R.Range(0, o.BodyMax)
		} else {
			bl = g.R.Range(0, min(o.BodyMax, 200))
		}
	}
	m.Body = g.Body(bl)

	// header set
	type item struct{ kind hdrKind }
	var items []hdrKind
	mandatory := []int{0, 1, 2, 3, 4}
	for _, i := range mandatory {
		if g.R.Chance(19, 20) {
			items = append(items, knownHdrs[i])
		}
	}
	if g.R.Chance(2, 3) {
		items = append(items, knownHdrs[5]) // Max-Forwards
	}
	if g.R.Chance(2, 3) {
		items = append(items, knownHdrs[7]) // Contact
	}
	if !o.NoExtras {
		for _, i := range []int{8, 9, 10, 11, 12} {
			if g.R.Chance(1, 4) {
				items = append(items, knownHdrs[i])
			}
		}
		// repeats
		if g.R.Chance(1, 4) {
			k := knownHdrs[g.R.PickInt(7, 12, 4, 0, 10, 11)]
			for r := g.R.Range(1, 3); r > 0; r-- {
				items = append(items, k)
			}
		}
		for r := g.R.Intn(4); r > 0; r-- {
			items = append(items, hdrKind{long: ""}) // unknown header
		}
	}
	if o.ManyHdrs {
		mx := o.ManyMax
		if mx <= 0 {
			mx = 50
		}
		for r := g.R.Range(mx/5, mx); r > 0; r-- {
			if g.R.Chance(1, 2) {
				items = append(items, hdrKind{long: ""})
			} else {
				k := knownHdrs[g.R.Intn(len(knownHdrs))]
				if k.long == "Content-Length" {
					k = knownHdrs[4] // the Content-Length header is placed below, deliberately
				}
				items = append(items, k)
			}
		}
	}
	// shuffle
	for i := len(items) - 1; i > 0; i-- {
		j := g.R.Intn(i + 1)
		items[i], items[j] = items[j], items[i]
	}
	if o.MaxHdrs > 0 && len(items) > o.MaxHdrs {
		items = items[:o.MaxHdrs]
	}
	for _, it := range items {
		if it.long == "" {
			name := "X-" + g.alnum(1, 10)
			switch g.R.Intn(6) {
			case 0:
				name = g.R.Pick([]string{"a", "b", "c", "e", "k", "s", "u", "x", "o", "r"})
			case 1:
				name = g.R.Pick([]string{"Subject", "Allow", "Supported", "Content-Type", "Froms", "Tos", "Vias", "Contacts", "Call-IDs", "Content-Lengths", "Rout", "Expire"})
			}
			val := g.Generic()
			if g.R.Chance(1, 150) {
				// a very long header line (longer than any small buffer constant)
				val = g.alnum(1, 8) + " " + strings.Repeat(g.alnum(8, 8)+" ", g.R.PickInt(130, 520, 1030, 1100, 2100)) + "end"
			}
			m.Hdrs = append(m.Hdrs, g.mkHdr(name, val, &o))
			continue
		}
		name := g.hdrName(it)
		m.Hdrs = append(m.Hdrs, g.mkHdr(name, g.valueFor(KnownKind(name), &o), &o))
	}
	if len(m.Hdrs) == 0 {
		m.Hdrs = append(m.Hdrs, g.mkHdr("X-Only", "1", &o))
	}

	// Content-Length
	cl := o.CL
	if cl == CLAny {
		cl = g.R.PickInt(CLExact, CLExact, CLExact, CLNone, CLSmaller, CLLarger, CLHuge, CLDupEqual)
	}
	clName := func() string { return g.hdrName(knownHdrs[6]) }
	ins := func(h HdrSpec) {
		p := g.R.Intn(len(m.Hdrs) + 1)
		m.Hdrs = append(m.Hdrs, HdrSpec{})
		copy(m.Hdrs[p+1:], m.Hdrs[p:])
		m.Hdrs[p] = h
	}
	switch cl {
	case CLExact:
		ins(g.mkHdr(clName(), g.padNum(len(m.Body)), &o))
	case CLNone:
	case CLSmaller:
		if len(m.Body) == 0 {
			m.Body = g.Body(g.R.Range(1, 40))
		}
		ins(g.mkHdr(clName(), g.padNum(g.R.Intn(len(m.Body))), &o))
	case CLLarger:
		n := len(m.Body) + g.R.Range(1, 50)
		if g.R.Chance(1, 4) {
			// legal declared lengths far beyond what a 16-bit offset can address
			n = g.R.PickInt(65535, 65536, 65536+len(m.Body), 65537+g.R.Intn(40), 131072+g.R.Intn(40), 1<<20, 1<<24-1, 1<<24)
		}
		ins(g.mkHdr(clName(), g.padNum(n), &o))
	case CLHuge:
		v := g.R.Pick([]string{"16777217", "99999999", "999999999", "1000000000", "4294967296", "4294967297", "18446744073709551617", "0000000000", "0000000012"})
		if g.R.Chance(1, 3) {
			v = strconv.Itoa(1<<24 + 1 + g.R.Intn(1<<20))
		}
		ins(g.mkHdr(clName(), v, &o))
	case CLDupEqual:
		v := g.padNum(len(m.Body))
		ins(g.mkHdr(clName(), v, &o))
		ins(g.mkHdr(clName(), v, &o))
	}
	fixTerms(&m)
	return m
}

func (g *G) padNum(n int) string {
	s := strconv.Itoa(n)
	if g.R.Chance(1, 10) {
		z := g.R.Range(1, 9-len(s))
		if z > 0 && len(s)+z <= 9 {
			s = strings.Repeat("0", z) + s
		}
	}
	return s
}

// Body makes n body bytes with CR / LF / ':' noise (bodies are opaque).
func (g *G) Body(n int) HexBytes {
	b := make([]byte, n)
	mode := g.R.Intn(3)
	for i := range b {
		switch {
		case mode == 0:
			b[i] = g.R.Byte()
		case g.R.Chance(1, 8):
			b[i] = "\r\n: \t"[g.R.Intn(5)]
		default:
			b[i] = tokAlpha[g.R.Intn(len(tokAlpha))]
		}
	}
	if n >= 16 && g.R.Chance(1, 4) {
		copy(b, "v=0\r\no=- 1 1 IN\r\n")
	}
	if n >= 4 && g.R.Chance(1, 6) {
		// body that looks like the end of a header block
		copy(b[n-4:], "\r\n\r\n")
	}
	return b
}

func min(a, b int) int {
	if a < b {
		return a
	}
	return b
}
