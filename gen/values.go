package gen

import (
	"strconv"
	"strings"

	"verif/rng"
)

// G is a workload generator bound to one run's PRNG.
type G struct {
	R *rng.Rng
	// Strict keeps to constructs the library's name-addr grammar accepts
	// (used where a sender-side model demands acceptance): no whitespace in
	// front of a list comma, display tokens starting with a letter or digit.
	Strict bool
}

func New(r *rng.Rng) *G { return &G{R: r} }

const tokAlpha = "abcdefghijklmnopqrstuvwxyzABCDEFGHIJKLMNOPQRSTUVWXYZ0123456789"
const tokMarks = "-_.!~*'()%+"

func (g *G) tok(min, max int) string {
	n := g.R.Range(min, max)
	b := make([]byte, n)
	for i := range b {
		if g.R.Chance(1, 12) {
			b[i] = tokMarks[g.R.Intn(len(tokMarks))]
		} else {
			b[i] = tokAlpha[g.R.Intn(len(tokAlpha))]
		}
	}
	return string(b)
}

func (g *G) alnum(min, max int) string {
	n := g.R.Range(min, max)
	b := make([]byte, n)
	for i := range b {
		b[i] = tokAlpha[g.R.Intn(len(tokAlpha))]
	}
	return string(b)
}

func (g *G) hexstr(n int, upper bool) string {
	const lo = "0123456789abcdef"
	const up = "0123456789ABCDEF"
	b := make([]byte, n)
	for i := range b {
		if upper {
			b[i] = up[g.R.Intn(16)]
		} else {
			b[i] = lo[g.R.Intn(16)]
		}
	}
	return string(b)
}

// Term picks a line terminator; lone CR / LF are rarer.
func (g *G) Term() string {
	switch g.R.Intn(10) {
	case 0:
		return "\n"
	case 1:
		return "\r"
	}
	return "\r\n"
}

// WS is optional SP/HT.
func (g *G) WS(max int) string {
	n := g.R.Intn(max + 1)
	b := make([]byte, n)
	for i := range b {
		if g.R.Chance(1, 4) {
			b[i] = '\t'
		} else {
			b[i] = ' '
		}
	}
	return string(b)
}

// LWS is optional linear white space, possibly with a fold. Never empty when
// must is set.
func (g *G) LWS(must bool) string {
	switch g.R.Intn(8) {
	case 0:
		if must {
			return " "
		}
		return ""
	case 1:
		return g.WS(1) + g.foldTerm() + g.oneWS() + g.WS(2)
	case 2:
		return "\t"
	case 3:
		return "  "
	default:
		if must {
			return " "
		}
		if g.R.Chance(1, 2) {
			return ""
		}
		return " "
	}
}

func (g *G) foldTerm() string {
	switch g.R.Intn(8) {
	case 0:
		return "\n"
	case 1:
		return "\r"
	}
	return "\r\n"
}

func (g *G) oneWS() string {
	if g.R.Chance(1, 4) {
		return "\t"
	}
	return " "
}

// OptLWS: whitespace that is usually absent.
func (g *G) OptLWS() string {
	if g.R.Chance(3, 4) {
		return ""
	}
	return g.LWS(false)
}

// ---------------------------------------------------------------- numbers

var boundaries = []string{
	"0", "1", "9", "10", "99", "100", "255", "256", "999", "1000",
	"65534", "65535", "65536", "65537", "99999", "100000",
	"16777215", "16777216", "16777217", "99999999", "100000000",
	"999999999", "1000000000", "2147483647", "2147483648", "2147483649",
	"4294967294", "4294967295", "4294967296", "4294967297", "4294967306",
	"5000000000", "8589934592", "8589934591", "9999999999", "10000000000",
	"42949672950", "42949672960", "42949672961", "99999999999",
	"9223372036854775807", "9223372036854775808", "18446744073709551615",
	"18446744073709551616", "18446744073709551617", "36893488147419103232",
	"99999999999999999999", "100000000000000000000", "184467440737095516160",
	"340282366920938463463374607431768211456",
}

// Digits returns a boundary-biased digit string of length 1..40.
func (g *G) Digits() string {
	var s string
	switch g.R.Intn(10) {
	case 0, 1, 2, 3:
		s = boundaries[g.R.Intn(len(boundaries))]
	case 4:
		// k * 2^32 + small, k small
		k := uint64(g.R.Range(1, 9))
		s = strconv.FormatUint(k<<32+uint64(g.R.Intn(70000)), 10)
	case 5:
		// k * 2^16 + small
		k := uint64(g.R.Range(1, 70000))
		s = strconv.FormatUint(k<<16+uint64(g.R.Intn(300)), 10)
	case 6:
		n := g.R.Range(1, 40)
		b := make([]byte, n)
		for i := range b {
			b[i] = byte('0' + g.R.Intn(10))
		}
		s = string(b)
	case 7:
		// around 2^64 multiples
		s = boundaries[len(boundaries)-10+g.R.Intn(10)]
	default:
		s = strconv.Itoa(g.R.Intn(100000))
	}
	if g.R.Chance(1, 8) {
		s = strings.Repeat("0", g.R.Range(1, 12)) + s
	} else if g.R.Chance(1, 20) {
		// long zero padding: many digits, small value
		s = strings.Repeat("0", g.R.Range(12, 34)) + strconv.Itoa(g.R.Intn(100000))
	}
	if len(s) > 40 {
		s = s[:40]
	}
	return s
}

// SmallNum is an ordinary in-range number.
func (g *G) SmallNum(max int) string { return strconv.Itoa(g.R.Intn(max + 1)) }

// ---------------------------------------------------------------- URIs

func (g *G) Host() string {
	switch g.R.Intn(8) {
	case 0:
		return strconv.Itoa(g.R.Intn(256)) + "." + strconv.Itoa(g.R.Intn(256)) + "." + strconv.Itoa(g.R.Intn(256)) + "." + strconv.Itoa(g.R.Intn(256))
	case 1:
		return "[2001:db8::" + g.hexstr(g.R.Range(1, 4), false) + "]"
	case 2:
		return g.alnum(1, 4)
	}
	return g.alnum(1, 8) + "." + g.alnum(2, 5) + "." + g.R.Pick([]string{"com", "org", "net", "de"})
}

// URI makes a sip/sips/tel URI. bare=true keeps it free of ';' '?' ',' so
// that it may stand outside angle brackets without ambiguity.
func (g *G) URI(bare bool) string {
	var sb strings.Builder
	sch := g.R.Pick([]string{"sip:", "sip:", "sip:", "sips:", "SIP:", "tel:"})
	sb.WriteString(sch)
	if sch == "tel:" {
		sb.WriteString("+" + g.Digits())
		return sb.String()
	}
	if !bare && g.R.Chance(1, 12) {
		// a user part that reads like a complete host[:port][;params][?headers] tail until the '@'
		// arrives (the URI parser works speculatively and has to start over at the '@')
		sb.WriteString(g.Host())
		if g.R.Chance(2, 3) {
			sb.WriteString(":" + g.R.Pick([]string{strconv.Itoa(g.R.Intn(65536)), strconv.Itoa(g.R.Intn(10)), "65535", "65536", "99999"}))
		}
		sb.WriteString(g.R.Pick([]string{";x", ";lr", ";p=1", "?h", "?h=v", ";x?h=v", "", ";"}) + g.alnum(0, 3))
		if g.R.Chance(1, 4) {
			sb.WriteString(":" + g.R.Pick([]string{g.alnum(1, 4), strconv.Itoa(g.R.Intn(100000))}))
		}
		sb.WriteString("@")
	} else if g.R.Chance(3, 4) {
		sb.WriteString(g.tok(1, 10))
		if !bare && g.R.Chance(1, 10) {
			// ';' and '?' before an '@' belong to the user part
			sb.WriteString(g.R.Pick([]string{";", "?", ";x=1", "?h=v", ";a?b"}) + g.alnum(0, 4))
		}
		if g.R.Chance(1, 6) {
			if g.R.Chance(1, 3) {
				sb.WriteString(":" + strconv.Itoa(g.R.Intn(100000))) // all-digit password: looks like a port at first
			} else {
				sb.WriteString(":" + g.alnum(1, 6))
			}
		}
		sb.WriteString("@")
	}
	sb.WriteString(g.Host())
	if g.R.Chance(1, 3) {
		if g.R.Chance(1, 4) {
			sb.WriteString(":" + g.Digits())
		} else {
			sb.WriteString(":" + strconv.Itoa(g.R.Intn(65536)))
		}
	}
	if !bare {
		np := g.R.Intn(3)
		for i := 0; i < np; i++ {
			sb.WriteString(";" + g.R.Pick([]string{"transport", "user", "lr", "maddr", "ttl", "method", g.alnum(1, 6)}))
			if g.R.Chance(2, 3) {
				sb.WriteString("=" + g.alnum(1, 6))
			}
		}
		if g.R.Chance(1, 8) {
			sb.WriteString("?" + g.alnum(1, 5) + "=" + g.alnum(0, 5))
			if g.R.Chance(1, 2) {
				sb.WriteString("&" + g.alnum(1, 5) + "=" + g.alnum(0, 5))
			}
		}
	}
	return sb.String()
}

// ---------------------------------------------------------------- quoted strings

// Quoted makes a quoted string with escapes and embedded delimiters.
func (g *G) Quoted() string {
	var sb strings.Builder
	sb.WriteByte('"')
	n := g.R.Intn(12)
	for i := 0; i < n; i++ {
		switch g.R.Intn(12) {
		case 0:
			sb.WriteString("\\\"")
		case 1:
			sb.WriteString("\\\\")
		case 2:
			sb.WriteString(g.R.Pick([]string{",", ";", "<", ">", "=", ":", "?", "&"}))
		case 3:
			sb.WriteByte(' ')
		case 4:
			sb.WriteString("\\" + g.alnum(1, 1))
		default:
			sb.WriteString(g.alnum(1, 3))
		}
	}
	sb.WriteByte('"')
	return sb.String()
}

// ---------------------------------------------------------------- header parameters

// NumTok is a numeric token placed by the sender, with its location kind, for
// the numeric reference model (C10).
type NumTok struct {
	Where string // "expires-param", "q-param", ...
	Text  string
}

// HParam makes one ";name[=value]" header parameter (without the leading ';').
func (g *G) HParam(contactLike bool) string {
	var name, val string
	hasVal := true
	switch g.R.Intn(10) {
	case 0, 1, 2:
		name = g.R.Pick([]string{"tag", "Tag", "TAG", "tag"})
		val = g.TagVal()
	case 3:
		name = g.R.Pick([]string{"expires", "Expires", "EXPIRES"})
		if g.R.Chance(1, 2) {
			val = g.Digits()
		} else {
			val = g.SmallNum(7200)
		}
		if !g.Strict && g.R.Chance(1, 8) {
			// not a number at all
			val = g.R.Pick([]string{"36x", "x36", "3x6", "-1", "+60", "1.5", "0x10", "60s", "1e3", "3600.", "12-", "~5",
				"18446744073709551616x", "99999999999999999999999.5", "184467440737095516150s", "4294967296x", "00000000000000000000000000x"})
		}
	case 4:
		name = g.R.Pick([]string{"q", "Q"})
		val = g.QVal()
	case 5:
		name = g.R.Pick([]string{"lr", "LR"})
		hasVal = g.R.Chance(1, 4)
		val = g.alnum(1, 3)
	case 6:
		if g.R.Chance(1, 3) {
			// names that merely start like the known ones
			name = g.R.Pick([]string{"qos", "queue", "qop", "Qx", "tags", "ta", "expire", "expiress", "l", "lrx"})
			val = g.R.Pick([]string{"0.25", "1", "0", "60", "0.5", g.SmallNum(3600)})
			break
		}
		fallthrough
	default:
		name = g.tok(1, 8)
		switch g.R.Intn(6) {
		case 0:
			hasVal = false
		case 1:
			val = g.Quoted()
		case 2:
			if !g.Strict {
				val = "" // "name=" : empty value
			} else {
				val = g.tok(1, 4)
			}
		default:
			val = g.tok(1, 10)
		}
	}
	if !hasVal {
		return name
	}
	return name + g.OptLWS() + "=" + g.OptLWS() + val
}

func (g *G) TagVal() string {
	switch g.R.Intn(6) {
	case 0:
		return g.hexstr(g.R.Range(4, 20), false)
	case 1:
		return g.hexstr(8, true) + "-" + g.hexstr(4, true)
	case 2:
		return g.alnum(8, 16)
	}
	return g.tok(1, 16)
}

func (g *G) QVal() string {
	switch g.R.Intn(12) {
	case 0:
		return "1"
	case 1:
		return "0"
	case 2:
		return "1.0"
	case 3:
		return "1.000"
	case 4:
		return "0." + strconv.Itoa(g.R.Intn(10))
	case 5:
		return "0." + strconv.Itoa(g.R.Intn(10)) + strconv.Itoa(g.R.Intn(10))
	case 6:
		// values at the edges of the documented range
		return g.R.Pick([]string{"1.1", "0.999", "0.99", "0.9", "0.001", "0.000", "0.00", "0.0", "1.00", "1.001", "1.01", "0.9999", "0.100", "0.010", "00.5", "01", "1.", "0."})
	case 7:
		return "2"
	case 8:
		return "0.1234"
	case 9:
		return g.Digits()
	case 10:
		return g.R.Pick([]string{".", "0.x5", "1.-", ".7a", "-0.5", "+0.25", "O.5", "1x.0", "-1.", "0.5x", "0..5"}) // not numbers
	}
	return "0." + strconv.Itoa(g.R.Intn(10)) + strconv.Itoa(g.R.Intn(10)) + strconv.Itoa(g.R.Intn(10))
}

// NameAddr makes one name-addr / addr-spec value with parameters.
func (g *G) NameAddr(contactLike bool) string {
	var sb strings.Builder
	if contactLike && g.R.Chance(1, 30) {
		return "*"
	}
	disp := g.R.Intn(4) // 0 none+bracket, 1 token(s), 2 quoted, 3 bare uri
	switch disp {
	case 1:
		sb.WriteString(g.alnum(1, 1) + g.tok(0, 7))
		if g.R.Chance(1, 3) {
			sb.WriteString(" " + g.tok(1, 6))
		}
		sb.WriteString(g.LWS(g.R.Chance(1, 2)))
	case 2:
		sb.WriteString(g.Quoted())
		sb.WriteString(g.OptLWS())
	}
	if disp == 3 {
		sb.WriteString(g.URI(true))
	} else if !g.Strict && g.R.Chance(1, 40) {
		sb.WriteString("<>") // empty URI between the brackets
	} else {
		sb.WriteString("<" + g.URI(false) + ">")
	}
	np := g.R.Intn(4)
	if g.R.Chance(1, 2) && np == 0 {
		np = 1
	}
	for i := 0; i < np; i++ {
		sb.WriteString(g.OptLWS() + ";" + g.OptLWS())
		if g.R.Chance(1, 25) {
			sb.WriteString(";") // empty parameter
		}
		sb.WriteString(g.HParam(contactLike))
	}
	if g.R.Chance(1, 20) {
		sb.WriteString(";") // empty trailing parameter
	}
	return sb.String()
}

// NameAddrList makes 1..n comma separated values.
func (g *G) NameAddrList(maxn int, star bool) string {
	n := 1
	if g.R.Chance(1, 2) {
		n = g.R.Range(1, maxn)
	}
	if g.R.Chance(1, 60) {
		// a very long list (more values than any small constant)
		n = g.R.PickInt(17, 33, 65, 129, 130, 200, 257, 300)
		parts := make([]string, n)
		for i := range parts {
			parts[i] = g.R.Pick([]string{"<sip:a@b>", "sip:c@d", "<sip:e>;q=0.5", "<sip:f@g>;expires=" + g.SmallNum(9999), "X <sip:h>"})
		}
		return strings.Join(parts, g.R.Pick([]string{",", ", ", ",\r\n "}))
	}
	parts := make([]string, n)
	for i := range parts {
		parts[i] = g.NameAddr(true)
		if parts[i] == "*" && (n > 1 || !star) {
			parts[i] = "<" + g.URI(false) + ">"
		}
	}
	var sb strings.Builder
	for i, p := range parts {
		if i > 0 {
			if g.Strict {
				sb.WriteString("," + g.OptLWS())
			} else {
				sb.WriteString(g.OptLWS() + "," + g.OptLWS())
			}
		}
		sb.WriteString(p)
	}
	return sb.String()
}

// ---------------------------------------------------------------- other header values

var Methods = []string{"INVITE", "ACK", "BYE", "CANCEL", "REGISTER", "PRACK", "OPTIONS", "UPDATE",
	"SUBSCRIBE", "NOTIFY", "INFO", "REFER", "PUBLISH", "MESSAGE"}

func (g *G) Method() string {
	if g.R.Chance(1, 40) {
		return "X-" + strings.ToUpper(g.alnum(12, 30)) // an extension method longer than any standard one
	}
	switch g.R.Intn(12) {
	case 0:
		return g.tok(1, 10)
	case 1:
		return strings.ToLower(Methods[g.R.Intn(len(Methods))])
	case 2:
		return Methods[g.R.Intn(len(Methods))] + "X"
	}
	return Methods[g.R.Intn(len(Methods))]
}

func (g *G) CSeqVal(wild bool) string {
	var num string
	if wild && g.R.Chance(1, 3) {
		num = g.Digits()
	} else {
		num = strconv.Itoa(g.R.Intn(1 << 20))
		if g.R.Chance(1, 10) {
			num = strconv.FormatUint(uint64(g.R.U64()&0xffffffff), 10)
		}
	}
	return num + g.LWS(true) + g.Method()
}

func (g *G) CallIDVal() string {
	switch g.R.Intn(8) {
	case 0:
		return g.hexstr(32, false)
	case 1:
		return g.hexstr(8, false) + "-" + g.hexstr(4, false) + "-" + g.hexstr(4, false) + "-" + g.hexstr(12, false) + "@" + g.Host()
	case 2:
		return g.alnum(12, 24) + "@" + g.Host()
	case 3:
		return g.Host() + "-" + g.alnum(4, 10)
	case 4:
		return g.alnum(16, 16) + "=="
	case 5:
		return strconv.Itoa(g.R.Intn(1<<30)) + "-" + strconv.Itoa(g.R.Intn(1<<30)) + "-" + strconv.Itoa(g.R.Intn(1<<20)) + "-" + strconv.Itoa(g.R.Intn(1<<20))
	}
	return g.tok(1, 30)
}

func (g *G) ViaVal() string {
	var sb strings.Builder
	sb.WriteString("SIP/2.0/" + g.R.Pick([]string{"UDP", "TCP", "TLS", "udp"}) + " " + g.Host())
	if g.R.Chance(1, 2) {
		sb.WriteString(":" + strconv.Itoa(g.R.Intn(65536)))
	}
	if g.R.Chance(1, 3) {
		sb.WriteString(";rport")
	}
	if g.R.Chance(1, 12) {
		sb.WriteString(";" + g.alnum(1, 5) + "=" + g.R.Pick([]string{"\"a,b\"", "\"x;y\"", "\"p,q;branch=zz\"", "\"\\\",\""}))
	}
	if g.R.Chance(1, 20) {
		sb.WriteString(";branch") // a branch parameter without a value
	} else if g.R.Chance(5, 6) {
		sb.WriteString(";branch=")
		switch g.R.Intn(5) {
		case 0:
			sb.WriteString(g.alnum(4, 12))
		case 1:
			sb.WriteString("z9hG4bK" + g.hexstr(g.R.Range(8, 32), false))
		case 2:
			sb.WriteString("z9hG4bK" + g.hexstr(8, true) + "-" + g.hexstr(8, true))
		default:
			sb.WriteString("z9hG4bK" + g.alnum(4, 20))
		}
	}
	if g.R.Chance(1, 4) {
		sb.WriteString(";received=" + g.Host())
	}
	if g.R.Chance(1, 8) {
		sb.WriteString(g.OptLWS() + "," + g.OptLWS() + "SIP/2.0/UDP " + g.Host() + ";branch=z9hG4bK" + g.alnum(4, 10))
	}
	return sb.String()
}

// Generic is an arbitrary header value: 0..n tokens separated by SP/HT/folds.
func (g *G) Generic() string {
	n := g.R.Intn(5)
	var sb strings.Builder
	for i := 0; i < n; i++ {
		if i > 0 {
			sb.WriteString(g.LWS(true))
		}
		t := g.tok(1, 12)
		if g.R.Chance(1, 6) {
			t += g.R.Pick([]string{":", ";", ",", "=", "<", ">", "\"", "@", "/"}) + g.tok(0, 4)
		}
		sb.WriteString(t)
	}
	return sb.String()
}

// caseVariant randomly changes the letter case of a header name.
func (g *G) caseVariant(s string) string {
	switch g.R.Intn(6) {
	case 0:
		return strings.ToLower(s)
	case 1:
		return strings.ToUpper(s)
	case 2:
		b := []byte(s)
		for i := range b {
			if g.R.Chance(1, 2) {
				if b[i] >= 'a' && b[i] <= 'z' {
					b[i] -= 32
				} else if b[i] >= 'A' && b[i] <= 'Z' {
					b[i] += 32
				}
			}
		}
		return string(b)
	}
	return s
}
