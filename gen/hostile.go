package gen

// Hostile transforms: what a broken or malicious peer / a corrupting path does
// to otherwise plausible bytes. They return raw bytes (no ground truth).

const delims = " \t\r\n:;,=<>\"\\@?&*/[]()%+-.0123456789"

// Mutate applies 1..k point mutations, delimiter biased.
func (g *G) Mutate(in []byte, k int) []byte {
	b := append([]byte(nil), in...)
	n := g.R.Range(1, k)
	for ; n > 0; n-- {
		if len(b) == 0 {
			b = append(b, g.hostileByte())
			continue
		}
		p := g.R.Intn(len(b))
		// bias towards delimiter positions
		if g.R.Chance(1, 2) {
			for t := 0; t < 8; t++ {
				q := g.R.Intn(len(b))
				if isDelim(b[q]) {
					p = q
					break
				}
			}
		}
		switch g.R.Intn(7) {
		case 6: // insert a well-formed multi-byte UTF-8 character (display names, reason phrases and bodies carry them)
			u := []byte(g.R.Pick([]string{"\u00fc", "\u00e9", "\u20ac", "\u4e2d", "\U0001F600", "\u00df\u00e4"}))
			b = append(b[:p], append(u, b[p:]...)...)
		case 0: // replace
			b[p] = g.hostileByte()
		case 1: // insert
			b = append(b, 0)
			copy(b[p+1:], b[p:])
			b[p] = g.hostileByte()
		case 2: // delete
			b = append(b[:p], b[p+1:]...)
		case 3: // bit flip
			b[p] ^= 1 << uint(g.R.Intn(8))
		case 4: // duplicate a span
			e := p + g.R.Range(1, 12)
			if e > len(b) {
				e = len(b)
			}
			span := append([]byte(nil), b[p:e]...)
			b = append(b[:e], append(span, b[e:]...)...)
		case 5: // swap with neighbour
			if p+1 < len(b) {
				b[p], b[p+1] = b[p+1], b[p]
			}
		}
	}
	return b
}

func isDelim(c byte) bool {
	for i := 0; i < len(delims); i++ {
		if delims[i] == c {
			return true
		}
	}
	return false
}

func (g *G) hostileByte() byte {
	switch g.R.Intn(4) {
	case 0:
		return g.R.Byte()
	case 1:
		return tokAlpha[g.R.Intn(len(tokAlpha))]
	}
	return delims[g.R.Intn(len(delims))]
}

// Noise makes n bytes over the SIP delimiter alphabet plus a few letters.
func (g *G) Noise(n int) []byte {
	b := make([]byte, n)
	for i := range b {
		b[i] = g.hostileByte()
	}
	return b
}

// Random makes n uniformly random bytes.
func (g *G) Random(n int) []byte {
	b := make([]byte, n)
	for i := range b {
		b[i] = g.R.Byte()
	}
	return b
}

// Truncate cuts the input at a random point.
func (g *G) Truncate(in []byte) []byte {
	if len(in) == 0 {
		return in
	}
	return append([]byte(nil), in[:g.R.Intn(len(in))]...)
}
