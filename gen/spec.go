// Package gen produces the workloads peers send: structured SIP messages that
// keep ground truth next to the bytes, value texts for the sub-parser drivers,
// boundary numbers, and hostile transforms.
package gen

import (
	"encoding/hex"
	"encoding/json"
	"strings"
)

// HexBytes is a byte string that is written as hex in replay files.
type HexBytes []byte

func (h HexBytes) MarshalJSON() ([]byte, error) {
	return json.Marshal(hex.EncodeToString(h))
}

func (h *HexBytes) UnmarshalJSON(b []byte) error {
	var s string
	if err := json.Unmarshal(b, &s); err != nil {
		return err
	}
	d, err := hex.DecodeString(s)
	if err != nil {
		return err
	}
	*h = d
	return nil
}

// HdrSpec is one header line as the sender wrote it. All parts are 7-bit
// ASCII (so that JSON round-trips them exactly).
type HdrSpec struct {
	Name  string `json:"n"`
	Pre   string `json:"p,omitempty"` // SP/HT between the name and ':'
	Lead  string `json:"l,omitempty"` // LWS after ':' (may contain folds)
	Val   string `json:"v"`           // value, first to last non-blank byte (may contain folds inside)
	Trail string `json:"t,omitempty"` // LWS after the value (SP/HT only)
	Term  string `json:"e"`           // CRLF, LF or CR
	// sender-side knowledge used by reference models
	Kind string `json:"k,omitempty"` // canonical lower-case long name for the known headers ("content-length", ...), "" for others
}

// MsgSpec is one structured, well-formed message.
type MsgSpec struct {
	FLine string    `json:"fl"`
	FTerm string    `json:"ft"`
	Hdrs  []HdrSpec `json:"h"`
	Blank string    `json:"b"`
	Body  HexBytes  `json:"body,omitempty"`
}

func (h *HdrSpec) Render() string {
	return h.Name + h.Pre + ":" + h.Lead + h.Val + h.Trail + h.Term
}

func (m *MsgSpec) Render() []byte {
	var sb strings.Builder
	sb.WriteString(m.FLine)
	sb.WriteString(m.FTerm)
	for i := range m.Hdrs {
		sb.WriteString(m.Hdrs[i].Render())
	}
	sb.WriteString(m.Blank)
	sb.Write(m.Body)
	return []byte(sb.String())
}

// HdrEnd is the offset (from the message start) of the first byte after the
// blank line.
func (m *MsgSpec) HdrEnd() int {
	n := len(m.FLine) + len(m.FTerm)
	for i := range m.Hdrs {
		n += len(m.Hdrs[i].Render())
	}
	return n + len(m.Blank)
}

func (m *MsgSpec) Len() int { return m.HdrEnd() + len(m.Body) }

// KnownKind maps a header name (any case, long or compact) to the canonical
// long lower-case name of the headers the library knows, "" otherwise. This is
// the sender's own table, written from RFC 3261 section 7.3.3 / 20, not read
// from the library.
func KnownKind(name string) string {
	switch strings.ToLower(name) {
	case "from", "f":
		return "from"
	case "to", "t":
		return "to"
	case "call-id", "i":
		return "call-id"
	case "cseq":
		return "cseq"
	case "via", "v":
		return "via"
	case "max-forwards":
		return "max-forwards"
	case "content-length", "l":
		return "content-length"
	case "contact", "m":
		return "contact"
	case "expires":
		return "expires"
	case "user-agent":
		return "user-agent"
	case "record-route":
		return "record-route"
	case "route":
		return "route"
	case "p-asserted-identity":
		return "p-asserted-identity"
	}
	return ""
}

// FirstOf returns the index of the first header of the given kind, or -1.
func (m *MsgSpec) FirstOf(kind string) int {
	for i := range m.Hdrs {
		if m.Hdrs[i].Kind == kind {
			return i
		}
	}
	return -1
}

// IsRequest tells whether the first line is a request line (sender's view).
func (m *MsgSpec) IsRequest() bool {
	return !(len(m.FLine) >= 8 && strings.EqualFold(m.FLine[:8], "SIP/2.0 "))
}

// Method returns the request method token ("" for replies).
func (m *MsgSpec) Method() string {
	if !m.IsRequest() {
		return ""
	}
	if i := strings.IndexByte(m.FLine, ' '); i > 0 {
		return m.FLine[:i]
	}
	return ""
}
