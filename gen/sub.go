package gen

import (
	"strings"
)

// POpt flag bits (values fixed by the library's exported constants; the
// harness checks at start-up that they still match).
const (
	FCommaTerm = 1 << iota
	FQmTerm
	FSpTerm
	FInputEnd
	FSemiSep
	FAmpSep
	FURIParam
	FURIHdr
)

// Continuation is what follows a value on the stream: the next line, a blank
// line, another list element, or nothing (yet).
func (g *G) Continuation() string {
	switch g.R.Intn(14) {
	case 0:
		return ""
	case 1:
		return "\r\n"
	case 2:
		return "\r\nX"
	case 3:
		return "\r\nNext: v\r\n\r\n"
	case 4:
		return "\nx"
	case 5:
		return "\rx"
	case 6:
		return "\r\n\r\n"
	case 7:
		return "\r\n " + g.tok(1, 4) + "\r\nZ"
	case 8:
		return "," + g.tok(1, 5) + "\r\nQ"
	case 9:
		return " " + g.tok(1, 5) + "\r\nQ"
	case 10:
		return "?" + g.tok(1, 5) + "=1\r\nQ"
	case 11:
		return "\r"
	case 12:
		return "\n"
	}
	return "\r\n" + g.tok(1, 6) + ": " + g.tok(1, 6) + "\r\n"
}

// ParamList makes a separator-delimited list 'name[=value]'.
func (g *G) ParamList(flags uint) string {
	sep := ";"
	if flags&(FAmpSep|FURIHdr) != 0 {
		sep = "&"
	}
	n := g.R.Intn(6)
	var sb strings.Builder
	if g.R.Chance(1, 12) {
		// every known parameter name once (any order), then unknown ones: more than small arrays hold
		known := []string{"transport=udp", "user=phone", "method=INVITE", "ttl=1", "maddr=h.example", "lr"}
		for i := len(known) - 1; i > 0; i-- {
			j := g.R.Intn(i + 1)
			known[i], known[j] = known[j], known[i]
		}
		k := g.R.Range(3, 6)
		sb.WriteString(strings.Join(known[:k], sep))
		for i := g.R.Intn(4); i > 0; i-- {
			sb.WriteString(sep + g.tok(1, 6) + g.R.Pick([]string{"", "=" + g.tok(1, 4)}))
		}
		return sb.String()
	}
	for i := 0; i < n; i++ {
		if i > 0 {
			sb.WriteString(g.OptLWS() + sep + g.OptLWS())
		}
		if g.R.Chance(1, 12) {
			continue // empty list item
		}
		name := g.R.Pick([]string{"transport", "user", "lr", "maddr", "ttl", "method", "branch", "Transport", "LR"})
		if g.R.Chance(1, 2) {
			name = g.tok(1, 8)
		}
		sb.WriteString(name)
		switch g.R.Intn(6) {
		case 0: // no value
		case 1: // empty value
			sb.WriteString(g.OptLWS() + "=" + g.OptLWS())
		case 2:
			sb.WriteString(g.OptLWS() + "=" + g.OptLWS() + g.Quoted())
		default:
			sb.WriteString(g.OptLWS() + "=" + g.OptLWS() + g.tok(1, 10))
		}
	}
	if g.R.Chance(1, 10) {
		sb.WriteString(sep)
	}
	return sb.String()
}

// TokFlags draws an option-flag set for ParseTokenParam.
func (g *G) TokFlags() uint {
	switch g.R.Intn(10) {
	case 0:
		return 0
	case 1:
		return FSemiSep | FCommaTerm
	case 2:
		return FURIParam
	case 3:
		return FURIHdr
	case 4:
		return FSemiSep | FSpTerm
	case 5:
		return FAmpSep | FSpTerm
	case 6:
		return FSemiSep | FQmTerm
	}
	var f uint
	for _, b := range []uint{FCommaTerm, FQmTerm, FSpTerm, FSemiSep, FAmpSep, FURIParam, FURIHdr} {
		if g.R.Chance(1, 3) {
			f |= b
		}
	}
	return f
}

// ListFlags draws the terminator flags the list wrappers document.
func (g *G) ListFlags() uint {
	return uint(g.R.PickInt(0, FQmTerm, FSpTerm, FCommaTerm, FQmTerm|FSpTerm, 0))
}

// SubText makes the text a peer sends to the sub-parser driver `kind`
// (value + continuation). flags are the driver's option flags.
func (g *G) SubText(kind string, flags uint, htype int) []byte {
	var s string
	switch kind {
	case "fline":
		m := g.Msg(MsgOpts{Request: -1, MaxHdrs: 1})
		s = m.FLine + m.FTerm
		if g.R.Chance(1, 6) {
			s = g.R.Pick([]string{"A b C", "SIP/2.0 200", "SIP/2.0 2x0 OK", "SIP/2.0 20: OK", "SIP/2.0 18A Ringing", "SIP/2.0 40; x", "SIP/2.0 99z", "SIP/2.0 /00 OK", "SIP/2.0 2:0 OK", "sip/2.0 20~ OK", "INVITE  sip:a SIP/2.0", "INVITE\tsip:a SIP/2.0", "SIP/2.0  200 OK", "I u V ", "SIP/2.0 200 "}) + g.Term()
		}
		s += g.R.Pick([]string{"", "V", "Via: x\r\n", "\r\n", "\n"})
	case "hdrline":
		m := g.Msg(MsgOpts{Request: -1, MaxHdrs: 1 + g.R.Intn(2), CL: CLAny, WildNumbers: g.R.Chance(1, 3)})
		h := m.Hdrs[g.R.Intn(len(m.Hdrs))]
		s = h.Render()
		if g.R.Chance(1, 10) {
			s = g.R.Pick([]string{"\r\n", "\n", "\r"})
		}
		s += g.R.Pick([]string{"", "N", "Next: v\r\n", "\r\n", "\n", " fold\r\nN", "\r", "\rX"})
	case "headers":
		m := g.Msg(MsgOpts{Request: -1, MaxHdrs: g.R.Range(1, 14), CL: CLAny, WildNumbers: g.R.Chance(1, 4)})
		var sb strings.Builder
		for i := range m.Hdrs {
			sb.WriteString(m.Hdrs[i].Render())
		}
		sb.WriteString(m.Blank)
		sb.WriteString(g.R.Pick([]string{"", "body", "\r\n", "X: y\r\n\r\n"}))
		s = sb.String()
	case "contacts", "pais":
		// one or several header bodies, each ended by a line end and the start of the next line
		nb := g.R.PickInt(1, 1, 2, 3, 4)
		var sb strings.Builder
		for i := 0; i < nb; i++ {
			if g.R.Chance(1, 2) {
				sb.WriteString(g.LWS(false) + g.NameAddrList(5, kind == "contacts"))
			} else {
				sb.WriteString(g.LWS(false) + g.NameAddr(kind == "contacts"))
			}
			sb.WriteString(g.WS(1))
			if i+1 < nb {
				sb.WriteString(g.Term())
			}
		}
		s = sb.String() + g.Continuation()
	case "nameaddr", "fromval", "onecontact", "onepai":
		if g.R.Chance(1, 2) {
			s = g.LWS(false) + g.NameAddrList(5, true)
		} else {
			s = g.LWS(false) + g.NameAddr(true)
		}
		s += g.WS(1) + g.Continuation()
	case "cseq":
		s = g.LWS(false) + g.CSeqVal(true) + g.WS(1) + g.Continuation()
	case "callid":
		s = g.LWS(false) + g.CallIDVal() + g.WS(1) + g.Continuation()
	case "uint", "clen", "expires":
		s = g.LWS(false) + g.Digits() + g.WS(1) + g.Continuation()
		if g.R.Chance(1, 12) {
			// two digit groups separated by LWS (invalid: must be rejected however it is chunked)
			s = g.LWS(false) + g.SmallNum(99999) + g.LWS(true) + g.SmallNum(99999) + g.Continuation()
		}
	case "tokparam", "uriparams", "urihdrs":
		f := flags
		if kind == "urihdrs" {
			f |= FAmpSep | FURIHdr
		}
		if kind == "uriparams" {
			f |= FSemiSep
		}
		s = g.OptLWS() + g.ParamList(f) + g.WS(1) + g.Continuation()
	case "uri":
		s = g.URI(false)
		switch g.R.Intn(6) {
		case 0:
			s += g.R.Pick([]string{";", "?", ":", ";x=", "?h=", ":5060;", ";lr?", "@", ";a@b", "?a:b@c"})
		case 1:
			s = g.R.Pick([]string{"sip:", "sips:", "tel:", "SIP:", "sip", "si", "sips", "tel:+1"}) + g.tok(0, 12)
		}
	case "skipquoted":
		q := g.Quoted()
		s = q[1:] + g.Continuation()
		if g.R.Chance(1, 8) {
			s = q[1:len(q)-1] + "\\"
		}
	default:
		s = g.Generic()
	}
	return []byte(s)
}
