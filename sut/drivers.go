package sut

import (
	"fmt"

	"github.com/intuitivelabs/sipsp"
)

// Cfg is the receiver-side configuration of one parser object. Everything in
// it is a knob the caller chooses; no property may depend on most of them.
type Cfg struct {
	Kind      string `json:"kind"`                 // driver kind, see Kinds
	Flags     uint   `json:"flags,omitempty"`      // msg: SkipBody|CLenReq bits; tokparam/uriparams/urihdrs: POptFlags (without InputEnd)
	EOFFlag   bool   `json:"eof_flag,omitempty"`   // pass the documented end-of-input flag on the call made at EOF
	HdrCap    int    `json:"hdr_cap"`              // -2: object never Init()ed, -1: nil (library default), >=0: caller array of that length
	ConCap    int    `json:"con_cap"`              // same for the contact value array
	ParCap    int    `json:"par_cap"`              // URI parameter / URI header array length
	HType     int    `json:"htype,omitempty"`      // nameaddr: header kind passed to ParseNameAddrPVal
	FlagsLate uint   `json:"flags_late,omitempty"` // msg: from call number LateFrom on (counted per message) these flags are passed instead of Flags
	LateFrom  int    `json:"late_from,omitempty"`  // 0 = the flags never change between the calls of one message
	Frag      bool   `json:"frag,omitempty"`       // msg: this use of the object parses a bare header block (ParseHeaders on the message's own HL / PV, as for a sipfrag body) instead of a whole message
	HBMask    uint8  `json:"hb_mask,omitempty"`    // hdrline/headers: a caller's own PHBodies whose getters return nil for these kinds (bit order: From To Call-ID CSeq Content-Length Contacts Expires PAIs)
	NoHB      bool   `json:"no_hb,omitempty"`      // hdrline/headers: pass a nil PHBodies (generic value parsing only)
}

// Kinds lists the 14 driver kinds (1 whole-message + 13 sub-parsers of C02);
// several kinds are thin variants that go through a different exported entry
// point of the same automaton.
var Kinds = []string{
	"msg",
	"fline", "hdrline", "headers",
	"nameaddr", "fromval", "onecontact", "onepai",
	"contacts", "pais",
	"cseq", "callid", "uint", "clen", "expires",
	"tokparam", "uriparams", "urihdrs", "skipquoted",
	"uri", // one-shot ParseURI behind a buffer-until-FIN receiver (C04/C11/C12 only)
}

// Reset styles.
const (
	ByReset = 0 // the object's Reset()
	ByInit  = 1 // the object's Init(...) with the same caller arrays (falls back to Reset where there is no Init)
)

// Driver is one parser object plus the documented way to call it.
type Driver interface {
	// Call makes exactly one library call: continue at offs on buf.
	Call(buf []byte, offs int, eof bool) (int, sipsp.ErrorHdr)
	// Snap records everything readable (and bounds-checks every field).
	Snap(r *Rec, buf []byte)
	// Reset re-initialises the object the documented way.
	Reset(how int)
	// Reinit re-initialises the SAME object through its init operation for a
	// possibly different caller-array configuration (new arrays, or none).
	Reinit(c Cfg)
	// Continues: after this definitive verdict the same connection carries
	// a further unit starting at the returned offset.
	Continues(err sipsp.ErrorHdr) bool
	// Accumulates: the further unit is parsed into the SAME object without a
	// reset (ParseAllContactValues / ParseAllPAIValues called once per header
	// body, adding to one PContacts / PPAIs).
	Accumulates() bool
}

// Caller arrays are handed to the library as windows (len n) of larger
// backing arrays (cap n+2) whose tail holds sentinel values: a caller that
// gives the library pool[:n] expects it to keep to those n elements. Arrays()
// reports what the object's exported slices look like now and whether the tail
// is untouched.
const canaryType = sipsp.HdrT(0x7a7a)

func mkHdrs(n int) []sipsp.Hdr {
	b := make([]sipsp.Hdr, n+2)
	b[n].Type, b[n+1].Type = canaryType, canaryType
	return b[:n]
}

func mkVals(n int) []sipsp.PFromBody {
	b := make([]sipsp.PFromBody, n+2)
	b[n].Q, b[n+1].Q = 0x7a7a, 0x7a7a
	return b[:n]
}

func mkParams(n int) []sipsp.URIParam {
	b := make([]sipsp.URIParam, n+2)
	b[n].T, b[n+1].T = 0x7a7a, 0x7a7a
	return b[:n]
}

func mkUHdrs(n int) []sipsp.URIHdr {
	b := make([]sipsp.URIHdr, n+2)
	b[n].Name.Len, b[n+1].Name.Len = 0x7a7a, 0x7a7a
	return b[:n]
}

func chkHdrs(cur []sipsp.Hdr, mine []sipsp.Hdr, want int) string {
	if want < 0 {
		return ""
	}
	if len(cur) != want {
		return fmt.Sprintf("the caller's header array has %d elements but the object now uses %d", want, len(cur))
	}
	t := mine[:want+2]
	if t[want].Type != canaryType || t[want+1].Type != canaryType || t[want].Name.Len != 0 || t[want].Val.Len != 0 {
		return fmt.Sprintf("elements behind the caller's header array of %d were written", want)
	}
	return ""
}

func chkVals(cur []sipsp.PFromBody, mine []sipsp.PFromBody, want int) string {
	if want < 0 {
		return ""
	}
	if len(cur) != want {
		return fmt.Sprintf("the caller's contact array has %d elements but the object now uses %d", want, len(cur))
	}
	t := mine[:want+2]
	if t[want].Q != 0x7a7a || t[want+1].Q != 0x7a7a || t[want].V.Len != 0 {
		return fmt.Sprintf("elements behind the caller's contact array of %d were written", want)
	}
	return ""
}

// ArrayChecker is implemented by drivers that hand caller arrays to the library.
type ArrayChecker interface{ Arrays() string }

func (d *MsgD) Arrays() string {
	if d.cfg.HdrCap == -2 {
		return ""
	}
	if s := chkHdrs(d.M.HL.Hdrs, d.hdrs, d.cfg.HdrCap); s != "" {
		return s
	}
	return chkVals(d.M.PV.Contacts.Vals, d.contacts, d.cfg.ConCap)
}

func (d *HeadersD) Arrays() string {
	if s := chkHdrs(d.HL.Hdrs, d.hdrs, d.cfg.HdrCap); s != "" {
		return s
	}
	return chkVals(d.PV.Contacts.Vals, d.vals, d.cfg.ConCap)
}

func (d *HdrLineD) Arrays() string  { return chkVals(d.PV.Contacts.Vals, d.vals, d.cfg.ConCap) }
func (d *ContactsD) Arrays() string { return chkVals(d.C.Vals, d.vals, d.cfg.ConCap) }

func (d *URIParamsD) Arrays() string {
	n := d.cfg.ParCap
	if n < 0 {
		return ""
	}
	if len(d.L.Params) != n {
		return fmt.Sprintf("the caller's URI parameter array has %d elements but the object now uses %d", n, len(d.L.Params))
	}
	t := d.arr[:n+2]
	if t[n].T != 0x7a7a || t[n+1].T != 0x7a7a || t[n].Param.All.Len != 0 {
		return fmt.Sprintf("elements behind the caller's URI parameter array of %d were written", n)
	}
	return ""
}

func (d *URIHdrsD) Arrays() string {
	n := d.cfg.ParCap
	if n < 0 {
		return ""
	}
	if len(d.L.Hdrs) != n {
		return fmt.Sprintf("the caller's URI header array has %d elements but the object now uses %d", n, len(d.L.Hdrs))
	}
	t := d.arr[:n+2]
	if t[n].Name.Len != 0x7a7a || t[n+1].Name.Len != 0x7a7a || t[n].All.Len != 0 {
		return fmt.Sprintf("elements behind the caller's URI header array of %d were written", n)
	}
	return ""
}

// IsError implements DESIGN.md 6 convention 7.
func IsError(e sipsp.ErrorHdr) bool {
	switch e {
	case sipsp.ErrHdrOk, sipsp.ErrHdrMoreBytes, sipsp.ErrHdrMoreValues, sipsp.ErrHdrEOH, sipsp.ErrHdrEmpty:
		return false
	}
	return true
}

func New(c Cfg) Driver {
	switch c.Kind {
	case "msg":
		return newMsg(c)
	case "fline":
		return &FLineD{}
	case "hdrline":
		d := &HdrLineD{cfg: c}
		d.init()
		return d
	case "headers":
		d := &HeadersD{cfg: c}
		d.init()
		return d
	case "nameaddr", "fromval", "onecontact", "onepai":
		return &NameAddrD{cfg: c}
	case "contacts":
		d := &ContactsD{cfg: c}
		if c.ConCap >= 0 {
			d.vals = mkVals(c.ConCap)
			d.C.Init(d.vals)
		}
		return d
	case "pais":
		return &PAIsD{}
	case "cseq":
		return &CSeqD{}
	case "callid":
		return &CallIDD{}
	case "uint", "clen", "expires":
		return &UIntD{Kind: c.Kind}
	case "tokparam":
		return &TokParamD{cfg: c}
	case "uriparams":
		d := &URIParamsD{cfg: c}
		if c.ParCap >= 0 {
			d.arr = mkParams(c.ParCap)
			d.L.Init(d.arr)
		}
		return d
	case "urihdrs":
		d := &URIHdrsD{cfg: c}
		if c.ParCap >= 0 {
			d.arr = mkUHdrs(c.ParCap)
			d.L.Init(d.arr)
		}
		return d
	case "skipquoted":
		return &SkipQuotedD{}
	case "uri":
		return &URID{}
	}
	panic(fmt.Sprintf("sut.New: unknown driver kind %q", c.Kind))
}

// ---------------------------------------------------------------- msg

// MsgD drives ParseSIPMsg (doc comment at parse_msg.go: "called again with an
// extended buf ... and with offs equal to the last returned value").
type MsgD struct {
	cfg      Cfg
	M        sipsp.PSIPMsg
	hdrs     []sipsp.Hdr
	contacts []sipsp.PFromBody
	pool     arrayPool
	callNo   int  // calls made for the current message
	lastF    uint // flags (without the end-of-input bit) passed by the last call
}

func newMsg(c Cfg) *MsgD {
	d := &MsgD{cfg: c}
	if c.HdrCap >= 0 {
		d.hdrs = mkHdrs(c.HdrCap)
	}
	if c.ConCap >= 0 {
		d.contacts = mkVals(c.ConCap)
	}
	if c.HdrCap != -2 {
		d.M.Init(nil, d.hdrs, d.contacts)
	}
	return d
}

func (d *MsgD) flags(eof bool) uint8 {
	cf := d.cfg.Flags
	if d.cfg.LateFrom > 0 && d.callNo >= d.cfg.LateFrom {
		cf = d.cfg.FlagsLate
	}
	d.lastF = cf
	d.callNo++
	f := uint8(cf) & (sipsp.SIPMsgSkipBodyF | sipsp.SIPMsgCLenReqF)
	if eof && d.cfg.EOFFlag {
		f |= sipsp.SIPMsgNoMoreDataF
	}
	return f
}

func (d *MsgD) Call(buf []byte, offs int, eof bool) (int, sipsp.ErrorHdr) {
	if d.cfg.Frag {
		// another exported entry point on the same object: the header block parser fills the
		// message's header list and header values directly
		return sipsp.ParseHeaders(buf, offs, &d.M.HL, &d.M.PV)
	}
	return sipsp.ParseSIPMsg(buf, offs, &d.M, d.flags(eof))
}

// Adopt takes over the per-use settings of the next user of this object (which entry point it
// calls, with which flags); the arrays stay as they are.
func (d *MsgD) Adopt(c Cfg) {
	d.cfg.Frag, d.cfg.Flags, d.cfg.EOFFlag = c.Frag, c.Flags, c.EOFFlag
	d.cfg.LateFrom, d.cfg.FlagsLate = c.LateFrom, c.FlagsLate
}

// Poke: user code may register a first-of-type header itself (HdrLst.SetHdr is exported); a later
// reset / init has to forget it like everything else.
func (d *MsgD) Poke(n int) {
	var h sipsp.Hdr
	h.Type = sipsp.HdrT(1 + n%13)
	h.Name.Set(0, 1)
	h.Val.Set(1, 2)
	d.M.HL.SetHdr(&h)
}

func (d *MsgD) Snap(r *Rec, buf []byte) { SnapMsg(r, &d.M, buf) }

// CallCfg is the configuration a brand-new object needs in order to make, as its first call, the
// call this object made last (same flags).
func (d *MsgD) CallCfg() Cfg {
	c := d.cfg
	if c.LateFrom > 0 {
		c.Flags, c.LateFrom, c.FlagsLate = d.lastF, 0, 0
	}
	return c
}

func (d *MsgD) Reset(how int) {
	d.callNo = 0
	if how == ByInit && d.cfg.HdrCap != -2 {
		d.M.Init(nil, d.hdrs, d.contacts)
	} else {
		d.M.Reset()
	}
}

func (d *MsgD) Continues(err sipsp.ErrorHdr) bool { return err == 0 }

// ---------------------------------------------------------------- fline

type FLineD struct{ FL sipsp.PFLine }

func (d *FLineD) Call(buf []byte, offs int, eof bool) (int, sipsp.ErrorHdr) {
	return sipsp.ParseFLine(buf, offs, &d.FL)
}
func (d *FLineD) Snap(r *Rec, buf []byte)           { SnapFLine(r, &d.FL) }
func (d *FLineD) Reset(how int)                     { d.FL.Reset() }
func (d *FLineD) Continues(err sipsp.ErrorHdr) bool { return false }

// partialHB is a caller-written PHBodies that has no room for some kinds of values: the getters of
// the masked kinds return nil ("fall back to generic value parsing").
type partialHB struct {
	pv   *sipsp.PHdrVals
	mask uint8
}

func (p *partialHB) GetFrom() *sipsp.PFromBody {
	if p.mask&1 != 0 {
		return nil
	}
	return p.pv.GetFrom()
}
func (p *partialHB) GetTo() *sipsp.PFromBody {
	if p.mask&2 != 0 {
		return nil
	}
	return p.pv.GetTo()
}
func (p *partialHB) GetCallID() *sipsp.PCallIDBody {
	if p.mask&4 != 0 {
		return nil
	}
	return p.pv.GetCallID()
}
func (p *partialHB) GetCSeq() *sipsp.PCSeqBody {
	if p.mask&8 != 0 {
		return nil
	}
	return p.pv.GetCSeq()
}
func (p *partialHB) GetCLen() *sipsp.PUIntBody {
	if p.mask&16 != 0 {
		return nil
	}
	return p.pv.GetCLen()
}
func (p *partialHB) GetContacts() *sipsp.PContacts {
	if p.mask&32 != 0 {
		return nil
	}
	return p.pv.GetContacts()
}
func (p *partialHB) GetExpires() *sipsp.PUIntBody {
	if p.mask&64 != 0 {
		return nil
	}
	return p.pv.GetExpires()
}
func (p *partialHB) GetPAIs() *sipsp.PPAIs {
	if p.mask&128 != 0 {
		return nil
	}
	return p.pv.GetPAIs()
}
func (p *partialHB) Reset() { p.pv.Reset() }

func hbFor(cfg *Cfg, pv *sipsp.PHdrVals) sipsp.PHBodies {
	if cfg.HBMask != 0 {
		return &partialHB{pv: pv, mask: cfg.HBMask}
	}
	return pv
}

// ---------------------------------------------------------------- hdrline

// HdrLineD drives ParseHdrLine on one header line ("called again ... with the
// same buffer, the returned offset and the same Hdr structure").
type HdrLineD struct {
	cfg  Cfg
	H    sipsp.Hdr
	PV   sipsp.PHdrVals
	vals []sipsp.PFromBody
}

func (d *HdrLineD) init() {
	if d.cfg.ConCap >= 0 {
		d.vals = mkVals(d.cfg.ConCap)
		d.PV.Init(d.vals)
	}
}

func (d *HdrLineD) Call(buf []byte, offs int, eof bool) (int, sipsp.ErrorHdr) {
	if d.cfg.NoHB {
		return sipsp.ParseHdrLine(buf, offs, &d.H, nil)
	}
	return sipsp.ParseHdrLine(buf, offs, &d.H, hbFor(&d.cfg, &d.PV))
}
func (d *HdrLineD) Snap(r *Rec, buf []byte) {
	o := r.In("Hdr.")
	SnapHdr(r, &d.H)
	r.Out(o)
	if !d.cfg.NoHB {
		SnapPV(r, &d.PV)
	}
}
func (d *HdrLineD) Reset(how int) {
	d.H.Reset()
	if how == ByInit && d.cfg.ConCap >= 0 {
		d.PV.Init(d.vals)
	} else {
		d.PV.Reset()
	}
}
func (d *HdrLineD) Continues(err sipsp.ErrorHdr) bool { return false }

// ---------------------------------------------------------------- headers

type HeadersD struct {
	pool arrayPool
	cfg  Cfg
	HL   sipsp.HdrLst
	PV   sipsp.PHdrVals
	hdrs []sipsp.Hdr
	vals []sipsp.PFromBody
}

func (d *HeadersD) init() {
	if d.cfg.HdrCap >= 0 {
		d.hdrs = mkHdrs(d.cfg.HdrCap)
		d.HL.Hdrs = d.hdrs
	}
	if d.cfg.ConCap >= 0 {
		d.vals = mkVals(d.cfg.ConCap)
		d.PV.Init(d.vals)
	}
}
func (d *HeadersD) Call(buf []byte, offs int, eof bool) (int, sipsp.ErrorHdr) {
	if d.cfg.NoHB {
		return sipsp.ParseHeaders(buf, offs, &d.HL, nil)
	}
	return sipsp.ParseHeaders(buf, offs, &d.HL, hbFor(&d.cfg, &d.PV))
}
func (d *HeadersD) Poke(n int) {
	var h sipsp.Hdr
	h.Type = sipsp.HdrT(1 + n%13)
	h.Name.Set(0, 1)
	h.Val.Set(1, 2)
	d.HL.SetHdr(&h)
}
func (d *HeadersD) Snap(r *Rec, buf []byte) {
	SnapHdrLst(r, &d.HL)
	if !d.cfg.NoHB {
		SnapPV(r, &d.PV)
	}
}
func (d *HeadersD) Reset(how int) {
	d.HL.Reset()
	if how == ByInit && d.cfg.ConCap >= 0 {
		d.PV.Init(d.vals)
	} else {
		d.PV.Reset()
	}
}
func (d *HeadersD) Continues(err sipsp.ErrorHdr) bool { return false }

// ---------------------------------------------------------------- nameaddr

// NameAddrD drives ParseNameAddrPVal / ParseFromVal / ParseOneContact /
// ParseOnePAI. On ErrHdrMoreValues "this function should be called again with
// a fresh pfrom to parse the next value" - that is the next unit.
type NameAddrD struct {
	cfg Cfg
	F   sipsp.PFromBody
}

func (d *NameAddrD) Call(buf []byte, offs int, eof bool) (int, sipsp.ErrorHdr) {
	switch d.cfg.Kind {
	case "fromval":
		return sipsp.ParseFromVal(buf, offs, &d.F)
	case "onecontact":
		return sipsp.ParseOneContact(buf, offs, &d.F)
	case "onepai":
		return sipsp.ParseOnePAI(buf, offs, &d.F)
	}
	return sipsp.ParseNameAddrPVal(sipsp.HdrT(d.cfg.HType), buf, offs, &d.F)
}
func (d *NameAddrD) Snap(r *Rec, buf []byte)           { SnapFrom(r, &d.F) }
func (d *NameAddrD) Reset(how int)                     { d.F.Reset() }
func (d *NameAddrD) Continues(err sipsp.ErrorHdr) bool { return err == sipsp.ErrHdrMoreValues }

// ---------------------------------------------------------------- contacts / pais

type ContactsD struct {
	pool arrayPool
	cfg  Cfg
	C    sipsp.PContacts
	vals []sipsp.PFromBody
}

func (d *ContactsD) Call(buf []byte, offs int, eof bool) (int, sipsp.ErrorHdr) {
	return sipsp.ParseAllContactValues(buf, offs, &d.C)
}
func (d *ContactsD) Snap(r *Rec, buf []byte) { SnapContacts(r, &d.C) }
func (d *ContactsD) Reset(how int) {
	// Init is the list's init operation: on its own it must leave the object like a new one (C12)
	if how == ByInit && d.cfg.ConCap >= 0 {
		d.C.Init(d.vals)
		return
	}
	d.C.Reset()
}
func (d *ContactsD) Continues(err sipsp.ErrorHdr) bool { return err == sipsp.ErrHdrOk }

type PAIsD struct{ C sipsp.PPAIs }

func (d *PAIsD) Call(buf []byte, offs int, eof bool) (int, sipsp.ErrorHdr) {
	return sipsp.ParseAllPAIValues(buf, offs, &d.C)
}
func (d *PAIsD) Snap(r *Rec, buf []byte) { SnapPAIs(r, &d.C) }
func (d *PAIsD) Reset(how int) {
	if how == ByInit {
		d.C.Init()
	} else {
		d.C.Reset()
	}
}
func (d *PAIsD) Continues(err sipsp.ErrorHdr) bool { return err == sipsp.ErrHdrOk }

// ---------------------------------------------------------------- cseq / callid / uint

type CSeqD struct{ C sipsp.PCSeqBody }

func (d *CSeqD) Call(buf []byte, offs int, eof bool) (int, sipsp.ErrorHdr) {
	return sipsp.ParseCSeqVal(buf, offs, &d.C)
}
func (d *CSeqD) Snap(r *Rec, buf []byte)           { SnapCSeq(r, &d.C) }
func (d *CSeqD) Reset(how int)                     { d.C.Reset() }
func (d *CSeqD) Continues(err sipsp.ErrorHdr) bool { return false }

type CallIDD struct{ C sipsp.PCallIDBody }

func (d *CallIDD) Call(buf []byte, offs int, eof bool) (int, sipsp.ErrorHdr) {
	return sipsp.ParseCallIDVal(buf, offs, &d.C)
}
func (d *CallIDD) Snap(r *Rec, buf []byte)           { SnapCallID(r, &d.C) }
func (d *CallIDD) Reset(how int)                     { d.C.Reset() }
func (d *CallIDD) Continues(err sipsp.ErrorHdr) bool { return false }

type UIntD struct {
	Kind string
	C    sipsp.PUIntBody
}

func (d *UIntD) Call(buf []byte, offs int, eof bool) (int, sipsp.ErrorHdr) {
	switch d.Kind {
	case "clen":
		return sipsp.ParseCLenVal(buf, offs, &d.C)
	case "expires":
		return sipsp.ParseExpiresVal(buf, offs, &d.C)
	}
	return sipsp.ParseUIntVal(buf, offs, &d.C)
}
func (d *UIntD) Snap(r *Rec, buf []byte)           { SnapUInt(r, &d.C) }
func (d *UIntD) Reset(how int)                     { d.C.Reset() }
func (d *UIntD) Continues(err sipsp.ErrorHdr) bool { return false }

// ---------------------------------------------------------------- tokparam / uriparams / urihdrs

func poptFlags(c Cfg, eof bool) sipsp.POptFlags {
	f := sipsp.POptFlags(c.Flags) &^ sipsp.POptInputEndF
	if eof && c.EOFFlag {
		f |= sipsp.POptInputEndF
	}
	return f
}

// TokParamD drives ParseTokenParam; on ErrHdrMoreValues the next parameter is
// parsed into a reset PTokParam at the returned offset (as the list wrappers
// of the library itself do).
type TokParamD struct {
	cfg Cfg
	P   sipsp.PTokParam
}

func (d *TokParamD) Call(buf []byte, offs int, eof bool) (int, sipsp.ErrorHdr) {
	return sipsp.ParseTokenParam(buf, offs, &d.P, poptFlags(d.cfg, eof))
}
func (d *TokParamD) Snap(r *Rec, buf []byte)           { SnapTokParam(r, &d.P) }
func (d *TokParamD) Reset(how int)                     { d.P.Reset() }
func (d *TokParamD) Continues(err sipsp.ErrorHdr) bool { return err == sipsp.ErrHdrMoreValues }

type URIParamsD struct {
	cfg Cfg
	L   sipsp.URIParamsLst
	arr []sipsp.URIParam
	vno int // sum of the per-call "values parsed" results
}

func (d *URIParamsD) Call(buf []byte, offs int, eof bool) (int, sipsp.ErrorHdr) {
	n, v, err := sipsp.ParseAllURIParams(buf, offs, &d.L, poptFlags(d.cfg, eof))
	d.vno += v
	return n, err
}
func (d *URIParamsD) Snap(r *Rec, buf []byte) {
	SnapURIParams(r, &d.L)
}
func (d *URIParamsD) Reset(how int) {
	if how == ByInit && d.cfg.ParCap >= 0 {
		d.L.Init(d.arr)
	} else {
		d.L.Reset()
	}
	d.vno = 0
}
func (d *URIParamsD) Continues(err sipsp.ErrorHdr) bool {
	return d.Accumulates() && err == sipsp.ErrHdrOk
}

type URIHdrsD struct {
	cfg Cfg
	L   sipsp.URIHdrsLst
	arr []sipsp.URIHdr
	vno int
}

func (d *URIHdrsD) Call(buf []byte, offs int, eof bool) (int, sipsp.ErrorHdr) {
	n, v, err := sipsp.ParseAllURIHdrs(buf, offs, &d.L, poptFlags(d.cfg, eof))
	d.vno += v
	return n, err
}
func (d *URIHdrsD) Snap(r *Rec, buf []byte) {
	SnapURIHdrs(r, &d.L)
}
func (d *URIHdrsD) Reset(how int) {
	if how == ByInit && d.cfg.ParCap >= 0 {
		d.L.Init(d.arr)
	} else {
		d.L.Reset()
	}
	d.vno = 0
}
func (d *URIHdrsD) Continues(err sipsp.ErrorHdr) bool { return false }

// ---------------------------------------------------------------- skipquoted

// SkipQuotedD: SkipQuoted keeps no object; resuming is "call again at the
// returned offset".
type SkipQuotedD struct{}

func (d *SkipQuotedD) Call(buf []byte, offs int, eof bool) (int, sipsp.ErrorHdr) {
	return sipsp.SkipQuoted(buf, offs)
}
func (d *SkipQuotedD) Snap(r *Rec, buf []byte)           {}
func (d *SkipQuotedD) Reset(how int)                     {}
func (d *SkipQuotedD) Continues(err sipsp.ErrorHdr) bool { return false }

// ---------------------------------------------------------------- uri

// URID drives ParseURI. ParseURI is one-shot (it documents no resumption), so
// the receiver buffers until the peer's FIN and then parses the whole text,
// datagram style. It is here for the object-reuse (C12), start-offset (C11)
// and crash (C04) monitors; it is not one of C02's resumable parsers.
type URID struct {
	U    sipsp.PsipURI
	Err  sipsp.ErrorURI
	sub  int // length of the text handed to ParseURI
	done bool
}

func (d *URID) Call(buf []byte, offs int, eof bool) (int, sipsp.ErrorHdr) {
	if !eof {
		return offs, sipsp.ErrHdrMoreBytes
	}
	e, pos := sipsp.ParseURI(buf[offs:], &d.U)
	d.Err, d.sub, d.done = e, len(buf)-offs, true
	if e != 0 {
		return offs + pos, sipsp.ErrHdrBad
	}
	return offs + pos, sipsp.ErrHdrOk
}

func (d *URID) Snap(r *Rec, buf []byte) {
	// the components are relative to the slice handed to ParseURI
	ob, ol := r.Base, r.BufLen
	r.Base, r.BufLen = 0, d.sub
	if !d.done {
		r.BufLen = 1 << 20
	}
	r.Val("ErrorURI", int64(d.Err))
	if d.Err == 0 {
		SnapURI(r, &d.U)
		l, sh := d.U.Long(), d.U.Short()
		r.Fld("Long()", l)
		r.Fld("Short()", sh)
	}
	r.Base, r.BufLen = ob, ol
}
func (d *URID) Reset(how int)                     { d.U.Reset(); d.Err, d.sub, d.done = 0, 0, false }
func (d *URID) Continues(err sipsp.ErrorHdr) bool { return false }

// Renew turns d into a brand-new object of configuration c WITHOUT going
// through the library's Reset/Init: the Go zero value is assigned and the
// caller arrays are zeroed element by element, which is what a fresh
// allocation gives. It exists only to spare the allocator in the per-call
// shadow executions. If d is nil or of another kind a new one is allocated.
func Renew(d Driver, c Cfg) Driver {
	switch x := d.(type) {
	case *MsgD:
		if c.Kind != "msg" || cap(x.hdrs) < maxi(c.HdrCap, 0)+2 || cap(x.contacts) < maxi(c.ConCap, 0)+2 {
			break
		}
		h, ct := x.hdrs[:cap(x.hdrs)], x.contacts[:cap(x.contacts)]
		*x = MsgD{cfg: c}
		if c.HdrCap >= 0 {
			for i := range h {
				h[i] = sipsp.Hdr{}
			}
			h[c.HdrCap].Type, h[c.HdrCap+1].Type = canaryType, canaryType
			x.hdrs = h[:c.HdrCap]
		}
		if c.ConCap >= 0 {
			for i := range ct {
				ct[i] = sipsp.PFromBody{}
			}
			ct[c.ConCap].Q, ct[c.ConCap+1].Q = 0x7a7a, 0x7a7a
			x.contacts = ct[:c.ConCap]
		}
		if c.HdrCap != -2 {
			x.M.Init(nil, x.hdrs, x.contacts)
		}
		return x
	case *FLineD:
		if c.Kind == "fline" {
			*x = FLineD{}
			return x
		}
	case *NameAddrD:
		switch c.Kind {
		case "nameaddr", "fromval", "onecontact", "onepai":
			*x = NameAddrD{cfg: c}
			return x
		}
	case *CSeqD:
		if c.Kind == "cseq" {
			*x = CSeqD{}
			return x
		}
	case *CallIDD:
		if c.Kind == "callid" {
			*x = CallIDD{}
			return x
		}
	case *UIntD:
		switch c.Kind {
		case "uint", "clen", "expires":
			*x = UIntD{Kind: c.Kind}
			return x
		}
	case *TokParamD:
		if c.Kind == "tokparam" {
			*x = TokParamD{cfg: c}
			return x
		}
	case *SkipQuotedD:
		if c.Kind == "skipquoted" {
			return x
		}
	case *PAIsD:
		if c.Kind == "pais" {
			*x = PAIsD{}
			return x
		}
	case *URID:
		if c.Kind == "uri" {
			*x = URID{}
			return x
		}
	}
	return New(c)
}

func maxi(a, b int) int {
	if a > b {
		return a
	}
	return b
}

// ---------------------------------------------------------------- Reinit

func valsFor(n int) []sipsp.PFromBody {
	if n < 0 {
		return nil
	}
	return mkVals(n)
}

// arrayPool recycles caller arrays the way an application does: an array that
// an object's init operation detached goes back to the pool (the library's
// Init()/Reset() is documented to clean what it detaches) and a later init
// operation of a matching size gets it again.
type arrayPool struct {
	hdrs   map[int][]sipsp.Hdr
	vals   map[int][]sipsp.PFromBody
	shared *arrayPool // when set, arrays go to and come from this pool (one per simulated receiver process)
}

// SharedPool is a pool of caller arrays that several parser objects of one receiver draw from: what
// one object's init operation detaches may be attached to another object next.
type SharedPool = arrayPool

// UsePool makes the driver recycle its caller arrays through sp (drivers without arrays ignore it).
func UsePool(d Driver, sp *SharedPool) {
	switch x := d.(type) {
	case *MsgD:
		x.pool.shared = sp
	case *HeadersD:
		x.pool.shared = sp
	case *ContactsD:
		x.pool.shared = sp
	}
}

func (p *arrayPool) takeHdrs(n int) []sipsp.Hdr {
	if p.shared != nil {
		return p.shared.takeHdrs(n)
	}
	if n < 0 {
		return nil
	}
	if a, ok := p.hdrs[n]; ok {
		delete(p.hdrs, n)
		return a
	}
	return mkHdrs(n)
}

func (p *arrayPool) takeVals(n int) []sipsp.PFromBody {
	if p.shared != nil {
		return p.shared.takeVals(n)
	}
	if n < 0 {
		return nil
	}
	if a, ok := p.vals[n]; ok {
		delete(p.vals, n)
		return a
	}
	return mkVals(n)
}

func (p *arrayPool) give(h []sipsp.Hdr, v []sipsp.PFromBody) {
	if p.shared != nil {
		p.shared.give(h, v)
		return
	}
	if p.hdrs == nil {
		p.hdrs, p.vals = map[int][]sipsp.Hdr{}, map[int][]sipsp.PFromBody{}
	}
	if h != nil {
		p.hdrs[len(h)] = h
	}
	if v != nil {
		p.vals[len(v)] = v
	}
}

func (d *MsgD) Reinit(c Cfg) {
	d.callNo = 0
	d.Adopt(c)
	if c.HdrCap == -2 || d.cfg.HdrCap == -2 {
		d.M.Reset()
		return
	}
	oh, ov := d.hdrs, d.contacts
	d.cfg = c
	d.hdrs, d.contacts = d.pool.takeHdrs(c.HdrCap), d.pool.takeVals(c.ConCap)
	d.M.Init(nil, d.hdrs, d.contacts)
	d.pool.give(oh, ov) // detached by Init
}
func (d *FLineD) Reinit(c Cfg) { d.Reset(ByInit) }
func (d *HdrLineD) Reinit(c Cfg) {
	d.cfg = c
	d.H.Reset()
	d.vals = valsFor(c.ConCap)
	d.PV.Init(d.vals)
}
func (d *HeadersD) Reinit(c Cfg) {
	oh, ov := d.hdrs, d.vals
	d.cfg = c
	d.HL.Reset()
	d.hdrs = d.pool.takeHdrs(c.HdrCap)
	d.HL.Hdrs = d.hdrs
	d.vals = d.pool.takeVals(c.ConCap)
	d.PV.Init(d.vals)
	d.pool.give(oh, ov)
}
func (d *NameAddrD) Reinit(c Cfg) { d.cfg = c; d.Reset(ByInit) }
func (d *ContactsD) Reinit(c Cfg) {
	ov := d.vals
	d.cfg = c
	d.vals = d.pool.takeVals(c.ConCap)
	d.C.Init(d.vals) // the init operation alone
	d.pool.give(nil, ov)
}
func (d *PAIsD) Reinit(c Cfg)   { d.Reset(ByInit) }
func (d *CSeqD) Reinit(c Cfg)   { d.Reset(ByInit) }
func (d *CallIDD) Reinit(c Cfg) { d.Reset(ByInit) }
func (d *UIntD) Reinit(c Cfg)   { d.Reset(ByInit) }
func (d *TokParamD) Reinit(c Cfg) {
	d.cfg = c
	d.Reset(ByInit)
}
func (d *URIParamsD) Reinit(c Cfg) {
	d.cfg = c
	d.arr = nil
	if c.ParCap >= 0 {
		d.arr = mkParams(c.ParCap)
	}
	d.L.Init(d.arr)
	d.vno = 0
}
func (d *URIHdrsD) Reinit(c Cfg) {
	d.cfg = c
	d.arr = nil
	if c.ParCap >= 0 {
		d.arr = mkUHdrs(c.ParCap)
	}
	d.L.Init(d.arr)
	d.vno = 0
}
func (d *SkipQuotedD) Reinit(c Cfg) {}
func (d *URID) Reinit(c Cfg)        { d.Reset(ByInit) }

// ---------------------------------------------------------------- Accumulates

func (d *MsgD) Accumulates() bool      { return false }
func (d *FLineD) Accumulates() bool    { return false }
func (d *HdrLineD) Accumulates() bool  { return false }
func (d *HeadersD) Accumulates() bool  { return false }
func (d *NameAddrD) Accumulates() bool { return false }
func (d *CSeqD) Accumulates() bool     { return false }
func (d *CallIDD) Accumulates() bool   { return false }
func (d *UIntD) Accumulates() bool     { return false }
func (d *TokParamD) Accumulates() bool { return false }

// with the blank terminator a text like "lr;ttl=1 user=phone" is collected by calling again on the same list
func (d *URIParamsD) Accumulates() bool {
	return d.cfg.Flags&uint(sipsp.POptTokSpTermF) != 0 && d.cfg.Flags&uint(sipsp.POptTokQmTermF|sipsp.POptTokCommaTermF) == 0
}
func (d *URIHdrsD) Accumulates() bool    { return false }
func (d *SkipQuotedD) Accumulates() bool { return false }
func (d *URID) Accumulates() bool        { return false }
func (d *ContactsD) Accumulates() bool   { return true }
func (d *PAIsD) Accumulates() bool       { return true }
