package sut

import (
	"reflect"

	"github.com/intuitivelabs/sipsp"
)

// Internal automaton states are unexported. They are read here through
// reflect (reading an unexported integer field with Value.Uint() is legal)
// and used ONLY for coverage accounting - which suspension points a batch of
// runs reached - never by an oracle.

func stateOf(v reflect.Value) uint64 {
	if !v.IsValid() || v.Kind() != reflect.Struct {
		return 0xff
	}
	f := v.FieldByName("state")
	if !f.IsValid() || f.Kind() < reflect.Uint || f.Kind() > reflect.Uint64 {
		return 0xff
	}
	return f.Uint()
}

func fromState(f *sipsp.PFromBody) uint64 {
	return stateOf(reflect.ValueOf(f).Elem().FieldByName("PFromIState"))
}

func hdrState(h *sipsp.Hdr) uint64 {
	return stateOf(reflect.ValueOf(h).Elem().FieldByName("HdrIState"))
}

func mix(h uint64, x uint64) uint64 {
	h ^= x + 0x9e3779b97f4a7c15 + (h << 6) + (h >> 2)
	return h * 0xff51afd7ed558ccd
}

func pvSig(h uint64, pv *sipsp.PHdrVals) uint64 {
	h = mix(h, fromState(&pv.From))
	h = mix(h, fromState(&pv.To))
	h = mix(h, stateOf(reflect.ValueOf(&pv.Callid).Elem().FieldByName("PCallIDIState")))
	h = mix(h, stateOf(reflect.ValueOf(&pv.CSeq).Elem().FieldByName("PCSeqIState")))
	h = mix(h, stateOf(reflect.ValueOf(&pv.CLen).Elem().FieldByName("PUIntIState")))
	h = mix(h, stateOf(reflect.ValueOf(&pv.Expires).Elem().FieldByName("PUIntIState")))
	c := &pv.Contacts
	if c.N < len(c.Vals) {
		h = mix(h, fromState(&c.Vals[c.N]))
	} else {
		h = mix(h, 0x100+stateOf(reflect.ValueOf(c).Elem().FieldByName("last").FieldByName("PFromIState")))
	}
	p := &pv.PAIs
	if p.N < len(p.Vals) {
		h = mix(h, fromState(&p.Vals[p.N]))
	} else {
		h = mix(h, 0x100+stateOf(reflect.ValueOf(p).Elem().FieldByName("last").FieldByName("PFromIState")))
	}
	return h
}

func hlSig(h uint64, hl *sipsp.HdrLst) uint64 {
	if hl.N < len(hl.Hdrs) {
		return mix(h, hdrState(&hl.Hdrs[hl.N]))
	}
	return mix(h, 0x100+stateOf(reflect.ValueOf(hl).Elem().FieldByName("HdrLstIState").FieldByName("hdr").FieldByName("HdrIState")))
}

// StateSig hashes the internal automaton states of a suspended driver.
func StateSig(d Driver) (h uint64) {
	defer func() {
		if recover() != nil { // internal layout changed: coverage accounting degrades, nothing else
			h = 0xdead
		}
	}()
	h = 1469598103934665603
	switch x := d.(type) {
	case *MsgD:
		h = mix(h, stateOf(reflect.ValueOf(&x.M).Elem().FieldByName("SIPMsgIState")))
		h = mix(h, stateOf(reflect.ValueOf(&x.M.FL).Elem().FieldByName("PFLineIState")))
		h = hlSig(h, &x.M.HL)
		h = pvSig(h, &x.M.PV)
	case *FLineD:
		h = mix(h, stateOf(reflect.ValueOf(&x.FL).Elem().FieldByName("PFLineIState")))
	case *HdrLineD:
		h = mix(h, hdrState(&x.H))
		h = pvSig(h, &x.PV)
	case *HeadersD:
		h = hlSig(h, &x.HL)
		h = pvSig(h, &x.PV)
	case *NameAddrD:
		h = mix(h, fromState(&x.F))
	case *ContactsD:
		c := &x.C
		if c.N < len(c.Vals) {
			h = mix(h, fromState(&c.Vals[c.N]))
		} else {
			h = mix(h, 0x100+stateOf(reflect.ValueOf(c).Elem().FieldByName("last").FieldByName("PFromIState")))
		}
	case *PAIsD:
		p := &x.C
		if p.N < len(p.Vals) {
			h = mix(h, fromState(&p.Vals[p.N]))
		} else {
			h = mix(h, 0x100+stateOf(reflect.ValueOf(p).Elem().FieldByName("last").FieldByName("PFromIState")))
		}
	case *CSeqD:
		h = mix(h, stateOf(reflect.ValueOf(&x.C).Elem().FieldByName("PCSeqIState")))
	case *CallIDD:
		h = mix(h, stateOf(reflect.ValueOf(&x.C).Elem().FieldByName("PCallIDIState")))
	case *UIntD:
		h = mix(h, stateOf(reflect.ValueOf(&x.C).Elem().FieldByName("PUIntIState")))
	case *TokParamD:
		h = mix(h, stateOf(reflect.ValueOf(&x.P).Elem()))
	case *URIParamsD:
		l := &x.L
		if l.N < len(l.Params) {
			h = mix(h, stateOf(reflect.ValueOf(&l.Params[l.N].Param).Elem()))
		} else {
			h = mix(h, 0x100+stateOf(reflect.ValueOf(l).Elem().FieldByName("tmp").FieldByName("Param")))
		}
	case *URIHdrsD:
		l := &x.L
		if l.N < len(l.Hdrs) {
			h = mix(h, stateOf(reflect.ValueOf(&l.Hdrs[l.N]).Elem()))
		} else {
			h = mix(h, 0x100+stateOf(reflect.ValueOf(l).Elem().FieldByName("tmp")))
		}
	}
	return h
}
