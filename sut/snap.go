package sut

import (
	"fmt"

	"github.com/intuitivelabs/sipsp"
)

// Everything below reads exported fields and exported methods only.

func SnapFLine(r *Rec, fl *sipsp.PFLine) {
	o := r.In("FL.")
	r.Val("Status", int64(fl.Status))
	r.Val("MethodNo", int64(fl.MethodNo))
	r.Fld("Method", fl.Method)
	r.Fld("URI", fl.URI)
	r.Fld("Version", fl.Version)
	r.Fld("StatusCode", fl.StatusCode)
	r.Fld("Reason", fl.Reason)
	r.Bool("Request()", fl.Request())
	r.Bool("Empty()", fl.Empty())
	r.Bool("Parsed()", fl.Parsed())
	r.Bool("Pending()", fl.Pending())
	r.Out(o)
}

func SnapFrom(r *Rec, f *sipsp.PFromBody) {
	r.Fld("Name", f.Name)
	r.Fld("URI", f.URI)
	r.Fld("Tag", f.Tag)
	r.Bool("Star", f.Star)
	r.Bool("LR", f.LR)
	r.Bool("HasExpires", f.HasExpires)
	r.Val("Type", int64(f.Type))
	r.Val("Q", int64(f.Q))
	r.Val("Expires", int64(f.Expires))
	r.Fld("Params", f.Params)
	r.Fld("V", f.V)
	r.Val("ParamErr", int64(f.ParamErr))
	if f.ParamErr != 0 {
		r.Pos("ErrOffs", int(f.ErrOffs)) // only meaningful together with ParamErr
	}
	r.Bool("Empty()", f.Empty())
	r.Bool("Parsed()", f.Parsed())
	r.Bool("Pending()", f.Pending())
}

func SnapCSeq(r *Rec, c *sipsp.PCSeqBody) {
	r.Val("CSeqNo", int64(c.CSeqNo))
	r.Val("MethodNo", int64(c.MethodNo))
	r.Fld("CSeq", c.CSeq)
	r.Fld("Method", c.Method)
	r.Fld("V", c.V)
	r.Bool("Empty()", c.Empty())
	r.Bool("Parsed()", c.Parsed())
	r.Bool("Pending()", c.Pending())
}

func SnapCallID(r *Rec, c *sipsp.PCallIDBody) {
	r.Fld("CallID", c.CallID)
	r.Bool("Empty()", c.Empty())
	r.Bool("Parsed()", c.Parsed())
	r.Bool("Pending()", c.Pending())
}

func SnapUInt(r *Rec, c *sipsp.PUIntBody) {
	r.Val("UIVal", int64(c.UIVal))
	r.Fld("SVal", c.SVal)
	r.Bool("Empty()", c.Empty())
	r.Bool("Parsed()", c.Parsed())
	r.Bool("Pending()", c.Pending())
}

func SnapContacts(r *Rec, c *sipsp.PContacts) {
	r.Val("N", int64(c.N))
	r.Val("HNo", int64(c.HNo))
	r.Val("MaxExpires", int64(c.MaxExpires))
	r.Val("MinExpires", int64(c.MinExpires))
	r.Fld("LastHVal", c.LastHVal)
	r.Val("VNo()", int64(c.VNo()))
	r.Bool("More()", c.More())
	r.Bool("Empty()", c.Empty())
	r.Bool("Parsed()", c.Parsed())
	vno := c.VNo()
	if vno > len(c.Vals) { // would be a library bug; do not crash the harness
		vno = len(c.Vals)
	}
	for i := 0; i < vno; i++ {
		o := r.InIdx("Vals", i)
		SnapFrom(r, &c.Vals[i])
		r.Out(o)
	}
	// GetContact(i): first and last are documented to stay retrievable
	n := c.N
	if n > vno+2 {
		n = vno + 2
	}
	for _, i := range [...]int{0, c.N - 1, vno, vno + 1} {
		if i < 0 {
			continue
		}
		o := r.InIdx("GetContact", i)
		p := c.GetContact(i)
		r.Bool("nil", p == nil)
		if p != nil {
			SnapFrom(r, p)
		}
		r.Out(o)
	}
	_ = n
}

func SnapPAIs(r *Rec, c *sipsp.PPAIs) {
	r.Val("N", int64(c.N))
	r.Val("HNo", int64(c.HNo))
	r.Fld("LastHVal", c.LastHVal)
	r.Val("VNo()", int64(c.VNo()))
	r.Bool("More()", c.More())
	r.Bool("Empty()", c.Empty())
	r.Bool("Parsed()", c.Parsed())
	vno := c.VNo()
	if vno > len(c.Vals) {
		vno = len(c.Vals)
	}
	for i := 0; i < vno; i++ {
		o := r.InIdx("Vals", i)
		SnapFrom(r, &c.Vals[i])
		r.Out(o)
	}
	for i := 0; i < 3; i++ {
		o := r.InIdx("GetPAI", i)
		p := c.GetPAI(i)
		r.Bool("nil", p == nil)
		if p != nil {
			SnapFrom(r, p)
		}
		r.Out(o)
	}
}

func SnapHdr(r *Rec, h *sipsp.Hdr) {
	r.Val("Type", int64(h.Type))
	r.Fld("Name", h.Name)
	r.Fld("Val", h.Val)
	r.Bool("Missing()", h.Missing())
}

func SnapHdrLst(r *Rec, hl *sipsp.HdrLst) {
	o := r.In("HL.")
	r.Val("N", int64(hl.N))
	r.Val("PFlags", int64(hl.PFlags))
	n := hl.N
	if n > len(hl.Hdrs) {
		n = len(hl.Hdrs)
	}
	for i := 0; i < n; i++ {
		oo := r.InIdx("Hdrs", i)
		SnapHdr(r, &hl.Hdrs[i])
		r.Out(oo)
	}
	for t := sipsp.HdrNone + 1; t < sipsp.HdrOther; t++ {
		oo := r.InIdx("GetHdr", int(t))
		h := hl.GetHdr(t)
		r.Bool("absent", h == nil || h.Missing()) // nil and an empty Hdr both mean "no such header"
		if h != nil && !h.Missing() {
			SnapHdr(r, h)
		}
		r.Out(oo)
	}
	r.Out(o)
}

func SnapPV(r *Rec, pv *sipsp.PHdrVals) {
	o := r.In("PV.")
	oo := r.In("From.")
	SnapFrom(r, &pv.From)
	r.Out(oo)
	oo = r.In("To.")
	SnapFrom(r, &pv.To)
	r.Out(oo)
	oo = r.In("Callid.")
	SnapCallID(r, &pv.Callid)
	r.Out(oo)
	oo = r.In("CSeq.")
	SnapCSeq(r, &pv.CSeq)
	r.Out(oo)
	oo = r.In("CLen.")
	SnapUInt(r, &pv.CLen)
	r.Out(oo)
	oo = r.In("Expires.")
	SnapUInt(r, &pv.Expires)
	r.Out(oo)
	oo = r.In("Contacts.")
	SnapContacts(r, &pv.Contacts)
	r.Out(oo)
	oo = r.In("PAIs.")
	SnapPAIs(r, &pv.PAIs)
	r.Out(oo)
	mx, ok := pv.MaxExpires()
	r.Val("MaxExpires().v", int64(mx))
	r.Bool("MaxExpires().ok", ok)
	r.Out(o)
}

func SnapMsg(r *Rec, m *sipsp.PSIPMsg, buf []byte) {
	SnapFLine(r, &m.FL)
	SnapHdrLst(r, &m.HL)
	SnapPV(r, &m.PV)
	if r.MaskBody {
		r.Pos("Body.Offs", int(m.Body.Offs))
	} else {
		r.Fld("Body", m.Body)
	}
	r.Bool("Parsed()", m.Parsed())
	r.Bool("Err()", m.Err())
	r.Bool("Request()", m.Request())
	r.Val("Method()", int64(m.Method()))
	// (RawMsg is nil after Reset()/Init() and in a new object, so a non-empty RawMsg was set by
	// this parse: the success exit and the missing-Content-Length exit both set Buf and RawMsg)
	if (m.Parsed() || len(m.RawMsg) > 0) && !r.MaskBody {
		// Buf / RawMsg are documented to be saved when parsing is complete
		if !r.MaskBuf {
			r.Val("len(Buf)", int64(len(m.Buf))-int64(r.Base))
		}
		r.Val("len(RawMsg)", int64(len(m.RawMsg)))
		// how RawMsg sits in the published Buf is compared only between runs that saw the same buffer
		// (the extent of msg.Buf is not fixed by any property: see DESIGN 9.2b)
		if !r.MaskBuf {
			r.Bool("RawMsg aliases buf", aliasEnd(m.RawMsg, m.Buf))
			r.Bool("Buf aliases buf", aliasStart(m.Buf, buf))
		}
	}
	// the message signature is part of what a caller reads back from a parsed message: it walks the
	// header array and the parsed values (stale entries behind the stored headers would show here)
	if m.Parsed() && r.OOB == "" && r.MaxEnd <= len(m.Buf) {
		sig, serr := sipsp.GetMsgSig(m)
		r.Val("Sig.err", int64(serr))
		r.Val("Sig.Method", int64(sig.Method))
		r.Val("Sig.Cid", int64(sig.CidSig)<<8|int64(sig.CidSLen))
		r.Val("Sig.From", int64(sig.FromSig))
		r.Val("Sig.ViaB", int64(sig.ViaBSig))
		r.Val("Sig.HdrSigLen", int64(sig.HdrSigLen))
		for i := 0; i < sig.HdrSigLen && i < len(sig.HdrSig); i++ {
			r.Val(fmt.Sprintf("Sig.HdrSig[%d]", i), int64(sig.HdrSig[i]))
		}
	}
	// once this parse has published Buf / RawMsg, every reported field points into Buf
	// (signature and other helpers dereference the fields of a successfully parsed message against it)
	if m.Parsed() && r.MaxEnd > len(m.Buf) && r.OOB == "" {
		r.OOB = fmt.Sprintf("a reported field ends at %d but the published msg.Buf has only %d bytes", r.MaxEnd, len(m.Buf))
	}
}

// aliasEnd: a ends where b ends in the same backing array (or both empty).
func aliasEnd(a, b []byte) bool {
	if len(a) == 0 {
		return true
	}
	if len(b) < len(a) {
		return false
	}
	return &a[len(a)-1] == &b[len(b)-1]
}

func aliasStart(a, b []byte) bool {
	if len(a) == 0 {
		return true
	}
	if len(b) == 0 {
		return false
	}
	return &a[0] == &b[0]
}

func SnapTokParam(r *Rec, p *sipsp.PTokParam) {
	r.Fld("All", p.All)
	r.Fld("Name", p.Name)
	r.Fld("Val", p.Val)
	r.Bool("Empty()", p.Empty())
}

func SnapURIParams(r *Rec, l *sipsp.URIParamsLst) {
	r.Val("N", int64(l.N))
	r.Val("Types", int64(l.Types))
	r.Val("PNo()", int64(l.PNo()))
	r.Bool("More()", l.More())
	r.Bool("Empty()", l.Empty())
	n := l.PNo()
	if n > len(l.Params) {
		n = len(l.Params)
	}
	for i := 0; i < n; i++ {
		o := r.InIdx("Params", i)
		SnapTokParam(r, &l.Params[i].Param)
		r.Val("T", int64(l.Params[i].T))
		r.Out(o)
	}
}

func SnapURIHdrs(r *Rec, l *sipsp.URIHdrsLst) {
	r.Val("N", int64(l.N))
	r.Val("HNo()", int64(l.HNo()))
	r.Bool("More()", l.More())
	r.Bool("Empty()", l.Empty())
	n := l.HNo()
	if n > len(l.Hdrs) {
		n = len(l.Hdrs)
	}
	for i := 0; i < n; i++ {
		o := r.InIdx("Hdrs", i)
		SnapTokParam(r, (*sipsp.PTokParam)(&l.Hdrs[i]))
		r.Out(o)
	}
}

func SnapURI(r *Rec, u *sipsp.PsipURI) {
	r.Val("URIType", int64(u.URIType))
	r.Fld("Scheme", u.Scheme)
	r.Fld("User", u.User)
	r.Fld("Pass", u.Pass)
	r.Fld("Host", u.Host)
	r.Fld("Port", u.Port)
	r.Fld("Params", u.Params)
	r.Fld("Headers", u.Headers)
	r.Val("PortNo", int64(u.PortNo))
}
