// Package sut wraps the real library (github.com/intuitivelabs/sipsp, built
// from /repo's working tree) behind small "drivers": each driver is the
// documented call protocol of one exported streaming parser, plus a flattening
// of everything a caller can read back through exported fields and methods.
package sut

import (
	"fmt"
	"strconv"

	"github.com/intuitivelabs/sipsp"
)

// EmptyFld is what an empty PField (Len==0) is recorded as: it denotes no
// bytes, its Offs is not observable through Get() (DESIGN.md 6, convention 1).
const EmptyFld = int64(-1) << 40

// Rec flattens observations into a list of integers. In Verbose mode it also
// keeps one label per value so that a mismatch can be printed.
type Rec struct {
	V       []int64
	Lab     []string
	Verbose bool
	Base    int    // subtracted from the offset of every non-empty field
	BufLen  int    // every field must satisfy Offs+Len <= BufLen
	OOB     string // first field that cannot be dereferenced ("" if none)
	// MaskBody leaves out the body extent / raw-message length / buffer
	// length of a message (C03's documented exemption for messages without
	// Content-Length whose body is "the rest of the buffer").
	MaskBody bool
	// MaskBuf leaves out the extent of msg.Buf (two executions that see different buffers).
	MaskBuf bool
	MaxEnd  int // largest Offs+Len of any non-empty field recorded
	pfx     string
}

func (r *Rec) Reset(base, buflen int) {
	r.V = r.V[:0]
	r.Lab = r.Lab[:0]
	r.Base = base
	r.BufLen = buflen
	r.OOB = ""
	r.pfx = ""
	r.MaxEnd = 0
}

func (r *Rec) In(p string) string {
	old := r.pfx
	if r.Verbose {
		r.pfx += p
	}
	return old
}

func (r *Rec) InIdx(p string, i int) string {
	old := r.pfx
	if r.Verbose {
		r.pfx += p + "[" + strconv.Itoa(i) + "]."
	}
	return old
}

func (r *Rec) Out(old string) { r.pfx = old }

func (r *Rec) Val(label string, x int64) {
	r.V = append(r.V, x)
	if r.Verbose {
		r.Lab = append(r.Lab, r.pfx+label)
	}
}

func (r *Rec) Bool(label string, b bool) {
	if b {
		r.Val(label, 1)
	} else {
		r.Val(label, 0)
	}
}

// Pos records a bare offset (positional value).
func (r *Rec) Pos(label string, o int) { r.Val(label, int64(o)-int64(r.Base)) }

// Fld records a PField and checks that it can be dereferenced.
func (r *Rec) Fld(label string, f sipsp.PField) {
	if int(f.Offs)+int(f.Len) > r.BufLen && r.OOB == "" {
		r.OOB = fmt.Sprintf("%s%s={Offs:%d Len:%d} buflen=%d", r.pfx, label, f.Offs, f.Len, r.BufLen)
	}
	if f.Len != 0 && int(f.Offs)+int(f.Len) > r.MaxEnd {
		r.MaxEnd = int(f.Offs) + int(f.Len)
	}
	if f.Len == 0 {
		r.V = append(r.V, EmptyFld, 0)
	} else {
		r.V = append(r.V, int64(f.Offs)-int64(r.Base), int64(f.Len))
	}
	if r.Verbose {
		r.Lab = append(r.Lab, r.pfx+label+".Offs", r.pfx+label+".Len")
	}
}

// Diff returns a readable list of the positions where a and b differ. Both
// must have been recorded in Verbose mode.
func Diff(a, b *Rec, max int) []string {
	var out []string
	n := len(a.V)
	if len(b.V) < n {
		n = len(b.V)
	}
	for i := 0; i < n && len(out) < max; i++ {
		if a.V[i] != b.V[i] || a.Lab[i] != b.Lab[i] {
			out = append(out, fmt.Sprintf("%s=%s vs %s=%s", a.Lab[i], fv(a.V[i]), b.Lab[i], fv(b.V[i])))
		}
	}
	if len(a.V) != len(b.V) && len(out) < max {
		out = append(out, fmt.Sprintf("observation count %d vs %d", len(a.V), len(b.V)))
		if len(a.V) > n {
			out = append(out, fmt.Sprintf("first extra: %s=%s", a.Lab[n], fv(a.V[n])))
		} else {
			out = append(out, fmt.Sprintf("first extra: %s=%s", b.Lab[n], fv(b.V[n])))
		}
	}
	return out
}

func fv(v int64) string {
	if v == EmptyFld {
		return "empty"
	}
	return strconv.FormatInt(v, 10)
}

func EqualV(a, b []int64) bool {
	if len(a) != len(b) {
		return false
	}
	for i := range a {
		if a[i] != b[i] {
			return false
		}
	}
	return true
}
