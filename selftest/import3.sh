#!/bin/sh
# import3.sh <ID> <tier> <props...>: wave 3 - /tmp/mut/<ID>w3/_mutant/{A,B,C} -> seeded/<ID>-{E,F,G}
cd "$(dirname "$0")/.." || exit 2
id=$1; tier=$2; shift 2
for pair in A:E B:F C:G; do
	k=${pair%%:*}; d=${pair##*:}
	src=/tmp/mut/${id}w3/_mutant/$k
	[ -f "$src/patch.diff" ] || { echo "$id-$d: no patch"; continue; }
	mkdir -p seeded/$id-$d
	cp "$src/patch.diff" "$src/demo_test.go" "$src/README.md" seeded/$id-$d/ 2>/dev/null
	./selftest/confirm.sh seeded/$id-$d || echo "  (NOT CONFIRMED)"
	./selftest/mutant.sh seeded/$id-$d/patch.diff $tier "$@" 2>&1 | cut -c1-420
done
git -C /repo worktree remove --force /tmp/mut/${id}w3 2>/dev/null
