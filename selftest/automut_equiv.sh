#!/bin/sh
# automut_equiv.sh <n> <runs> <resultdir> : does syntactic mutant <n> change ANYTHING the simulated receivers observe
# (verdicts, offsets, every value read back) on the workloads of C01 C02 C11 C12 C13 C06? Compares the event-log
# fingerprints with <resultdir>/ref.<prop> (made with n = ref from the unchanged tree).
cd "$(dirname "$0")/.." || exit 2
export GOFLAGS=-mod=mod GOPROXY=off GOSUMDB=off GOTOOLCHAIN=local
n=$1; runs=$2; res=$3; props="C02 C01 C13 C12 C11 C06"
if [ "$n" = ref ]; then
	go build -o .bin/simcheck ./cmd/simcheck || exit 2
	for p in $props; do ./.bin/simcheck -prop $p -tier quick -runs "$runs" -eventlog | sed 's/ v=.*//' | sha256sum | cut -c1-16 > "$res/ref.$p"; done
	exit 0
fi
d=$(mktemp -d /tmp/verif-am.XXXXXX) || exit 2
trap 'rm -rf "$d"' EXIT INT TERM
./.bin/mutgen -src /repo -dst "$d/wt" -n "$n" > "$d/m.json" || exit 2
sed "s#=> /repo#=> $d/wt#" go.mod > "$d/go.mod"; cp go.sum "$d/go.sum"
go build -modfile="$d/go.mod" -o "$d/simcheck" ./cmd/simcheck >/dev/null 2>&1 || { echo "$n nobuild" > "$res/$n.eq"; exit 0; }
for p in $props; do
	h=$(timeout 600 "$d/simcheck" -prop $p -tier quick -runs "$runs" -eventlog 2>/dev/null | sed 's/ v=.*//' | sha256sum | cut -c1-16)
	if [ "$h" != "$(cat "$res/ref.$p")" ]; then echo "$n differs $p" > "$res/$n.eq"; exit 0; fi
done
echo "$n same" > "$res/$n.eq"
