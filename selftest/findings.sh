#!/bin/sh
# Replays every witness under findings/ against (a) the pinned snapshot of the library, where each
# must reproduce its violation, and (b) /repo's working tree, where the "fixed" ones must not.
cd "$(dirname "$0")/.." || exit 2
export GOFLAGS=-mod=mod GOPROXY=off GOSUMDB=off GOTOOLCHAIN=local
base=${1:-ffdb303}
scratch=$(mktemp -d /tmp/verif-find.XXXXXX) || exit 2
trap 'git -C /repo worktree remove --force "$scratch/old" >/dev/null 2>&1; rm -rf "$scratch"' EXIT INT TERM
git -C /repo worktree add --detach "$scratch/old" "$base" >/dev/null 2>&1 || { echo "cannot create worktree"; exit 2; }
sed "s#=> /repo#=> $scratch/old#" go.mod > "$scratch/go.mod"; cp go.sum "$scratch/go.sum"
go build -modfile="$scratch/go.mod" -o "$scratch/simcheck-old" ./cmd/simcheck || exit 2
go build -o .bin/simcheck ./cmd/simcheck || exit 2
rc=0
for f in findings/F-*.json; do
	old=$("$scratch/simcheck-old" -replay "$f" 2>&1 | grep -c '^REPRODUCED')
	new=$(./.bin/simcheck -replay "$f" 2>&1 | grep -c '^REPRODUCED')
	echo "$f: pinned snapshot reproduced=$old, working tree reproduced=$new"
	[ "$old" = 1 ] || rc=1
done
exit $rc
