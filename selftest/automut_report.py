#!/usr/bin/env python3
"""automut_report.py <resultdir> : summary of selftest/automut.sh results (per function: killed by tests / caught by which check / survived)."""
import sys, json, glob, os, collections
d = sys.argv[1]
muts = {}
for l in open(os.path.join(d, 'mutants.jsonl')):
    m = json.loads(l); muts[m['n']] = m
res = {}
for f in glob.glob(os.path.join(d, '[0-9]*.txt')):
    t = open(f).read().split(None, 3)
    if len(t) >= 2: res[int(t[0])] = t
per = collections.defaultdict(collections.Counter)
tot = collections.Counter()
for n, t in sorted(res.items()):
    m = muts[n]; k = t[1] + ((' ' + t[2]) if t[1] == 'caught' else '')
    per[m['file'] + ':' + m['func']][k] += 1; tot[k] += 1
print('total', dict(tot))
if len(sys.argv) > 2 and sys.argv[2] == 'funcs':
    for fn, c in sorted(per.items()):
        print(fn, dict(c))
if len(sys.argv) > 2 and sys.argv[2] == 'survivors':
    for n, t in sorted(res.items()):
        if t[1] in ('survived', 'error'):
            m = muts[n]
            print(n, m['file'], m['line'], m['func'], m['kind'], repr(m['orig'][:60]), '->', repr(m['repl'][:60]), t[1:3] if t[1] == 'error' else '')
