#!/bin/sh
# Runs every seeded change (seeded/plan.txt: id + checks to run) and writes seeded/RESULTS.md.
# Usage: seeded_all.sh [tier] [only-id-regex] [append]   (append: add the block to RESULTS.md instead of rewriting it)
cd "$(dirname "$0")/.." || exit 2
tier=${1:-quick}; only=${2:-}; mode=${3:-}
out=seeded/RESULTS.md
tmp=$(mktemp /tmp/verif-seeded.XXXXXX)
while read -r id props; do
	[ -z "$id" ] && continue
	echo "$id" | grep -Eq "^($only)" || continue
	c=$(./selftest/confirm.sh seeded/$id 2>&1 | tail -n 1)
	echo "confirm: $c" >> "$tmp"
	./selftest/mutant.sh seeded/$id/patch.diff $tier $props 2>&1 | cut -c1-300 >> "$tmp"
done < seeded/plan.txt
{
	echo "# Seeded breaking changes: which check catches which (tier: $tier, $(date -u +%Y-%m-%dT%H:%MZ))"
	echo
	echo "Produced by selftest/seeded_all.sh. Every change is applied to a scratch worktree of /repo's HEAD only."
	echo "'CAUGHT' = the check exited 1 with a VIOLATION line whose replay file reproduced in a fresh process; 'missed' = exit 0."
	echo
	echo '```'
	cat "$tmp"
	echo '```'
} > "$tmp.out"
if [ "$mode" = append ]; then { echo; cat "$tmp.out"; } >> "$out"; else mv "$tmp.out" "$out"; fi
rm -f "$tmp.out"
rm -f "$tmp"
grep -c CAUGHT "$out"; grep missed "$out"
