#!/bin/sh
# import5.sh <ID> <tier> <props...>: wave 11 - /tmp/mut/<ID>w11/_mutant/{A,B} -> seeded/<ID>-{L,M}
cd "$(dirname "$0")/.." || exit 2
id=$1; tier=$2; shift 2
for pair in A:T B:U; do
	k=${pair%%:*}; d=${pair##*:}
	src=/tmp/mut/${id}w11/_mutant/$k
	[ -f "$src/patch.diff" ] || { echo "$id-$d: no patch"; continue; }
	mkdir -p seeded/$id-$d
	cp "$src/patch.diff" "$src/demo_test.go" "$src/README.md" seeded/$id-$d/ 2>/dev/null
	./selftest/confirm.sh seeded/$id-$d || echo "  (NOT CONFIRMED)"
	./selftest/mutant.sh seeded/$id-$d/patch.diff $tier "$@" 2>&1 | cut -c1-420
done
# (the worktree is removed by the caller once both changes were imported)
