#!/bin/sh
# import.sh <ID> <tier> <props...>: import a sub-agent's two changes from /tmp/mut/<ID>/_mutant/{A,B}, confirm, run checks
cd "$(dirname "$0")/.." || exit 2
id=$1; tier=$2; shift 2
for k in A B; do
	src=/tmp/mut/$id/_mutant/$k
	[ -f "$src/patch.diff" ] || { echo "$id-$k: no patch"; continue; }
	mkdir -p seeded/$id-$k
	cp "$src/patch.diff" "$src/demo_test.go" "$src/README.md" seeded/$id-$k/ 2>/dev/null
	./selftest/confirm.sh seeded/$id-$k || echo "  (NOT CONFIRMED)"
	./selftest/mutant.sh seeded/$id-$k/patch.diff $tier "$@" 2>&1 | cut -c1-420
done
git -C /repo worktree remove --force /tmp/mut/$id 2>/dev/null
