#!/bin/sh
# automut.sh <resultdir> [runs-per-check] [jobs] [first] [last] [step]
# Runs every syntactic mutant of /repo's non-test sources (cmd/mutgen) that still builds and passes the pinned
# tests against all 11 checks (small budget, one worker each, stops at the first check that reports a violation).
cd "$(dirname "$0")/.." || exit 2
export GOFLAGS=-mod=mod GOPROXY=off GOSUMDB=off GOTOOLCHAIN=local
res=$1; runs=${2:-4000}; jobs=${3:-16}
mkdir -p "$res"; go build -o .bin/mutgen ./cmd/mutgen || exit 2
total=$(./.bin/mutgen -src /repo -list | wc -l)
first=${4:-0}; last=${5:-$((total - 1))}; step=${6:-1}
./.bin/mutgen -src /repo -list > "$res/mutants.jsonl"
seq "$first" "$step" "$last" | while read -r k; do [ -f "$res/$k.txt" ] || echo "$k"; done | xargs -P "$jobs" -I{} ./selftest/automut_one.sh {} "$runs" "$res"
cat "$res"/[0-9]*.txt | awk '{c[$2]++} END {for (k in c) print k, c[k]}'
