#!/bin/sh
# import4.sh <Xn>: wave 4 (free choice of property) - /tmp/mut/<Xn>/_mutant/{A,B,C} -> seeded/<Xn>-{A,B,C}; all checks are run
cd "$(dirname "$0")/.." || exit 2
id=$1
for k in A B C; do
	src=/tmp/mut/$id/_mutant/$k
	[ -f "$src/patch.diff" ] || { echo "$id-$k: no patch"; continue; }
	mkdir -p seeded/$id-$k
	cp "$src/patch.diff" "$src/demo_test.go" "$src/README.md" seeded/$id-$k/ 2>/dev/null
	./selftest/confirm.sh seeded/$id-$k || echo "  (NOT CONFIRMED)"
	./selftest/mutant.sh seeded/$id-$k/patch.diff quick C01 C02 C03 C04 C04y C05 C06 C10 C11 C12 C13 C19 2>&1 | cut -c1-330
done
git -C /repo worktree remove --force /tmp/mut/$id 2>/dev/null
