#!/bin/sh
# mutant.sh <patch.diff> <tier> <prop> [<prop>...]
# Applies a patch to a scratch worktree of /repo's HEAD (outside /repo and /verif), runs the pinned
# test suite there, builds the harness against the patched copy and runs the given checks.
# Prints one line per property: CAUGHT / missed, and removes the scratch worktree.
cd "$(dirname "$0")/.." || exit 2
export GOFLAGS=-mod=mod GOPROXY=off GOSUMDB=off GOTOOLCHAIN=local
patch=$(readlink -f "$1"); tier=$2; shift 2
scratch=$(mktemp -d /tmp/verif-mut.XXXXXX) || exit 2
trap 'git -C /repo worktree remove --force "$scratch/wt" >/dev/null 2>&1; rm -rf "$scratch"' EXIT INT TERM
git -C /repo worktree add --detach "$scratch/wt" HEAD >/dev/null 2>&1 || { echo "cannot create worktree"; exit 2; }
if ! git -C "$scratch/wt" apply "$patch"; then echo "PATCH DOES NOT APPLY: $patch"; exit 2; fi
if ! (cd "$scratch/wt" && go build ./... && go test -vet=off -count=1 ./... >"$scratch/test.log" 2>&1); then
	echo "BASELINE TESTS FAIL with $patch (not a valid mutant)"; tail -n 5 "$scratch/test.log"; exit 3
fi
sed "s#=> /repo#=> $scratch/wt#" go.mod > "$scratch/go.mod"; cp go.sum "$scratch/go.sum"
go build -modfile="$scratch/go.mod" -o "$scratch/simcheck" ./cmd/simcheck || { echo "harness build failed"; exit 2; }
name=$(basename "$patch" .diff); [ "$name" = patch ] && name=$(basename "$(dirname "$patch")")
for p in "$@"; do
	mode=calls
	bin="$scratch/simcheck"
	extra=""
	case "$p" in
	C04y)
		# (kept: explicit yield-mode run against the patched tree)
		# loop-level interleaving on a yield-instrumented copy of the patched tree
		go build -o .bin/yieldgen ./cmd/yieldgen && ./.bin/yieldgen "$scratch/wt" "$scratch/y" >/dev/null
		sed "s#=> /repo#=> $scratch/y#" go.mod > "$scratch/gy.mod"; cp go.sum "$scratch/gy.sum"
		go build -modfile="$scratch/gy.mod" -tags verifyield -o "$scratch/simcheck-y" ./cmd/simcheck || { echo "yield build failed"; continue; }
		bin="$scratch/simcheck-y"; mode=yield; extra="-tasks-only -runs 200000"; p=C04 ;;
	C04r)
		go build -race -modfile="$scratch/go.mod" -o "$scratch/simcheck-r" ./cmd/simcheck || { echo "race build failed"; continue; }
		bin="$scratch/simcheck-r"; mode=race; extra="-tasks-only -runs 40000"; p=C04 ;;
	esac
	t0=$(date +%s)
	GORACE="halt_on_error=1 exitcode=66" timeout 1800 "$bin" -prop "$p" -tier "$tier" -mode $mode $extra -no-evidence -out "$scratch/out" >"$scratch/run.log" 2>&1
	rc=$?
	t1=$(date +%s)
	if [ $rc -eq 1 ] || [ $rc -eq 66 ]; then
		echo "$name $p($mode): CAUGHT in $((t1 - t0))s: $(grep -E '^minimised|DATA RACE' "$scratch/run.log" | head -n 1 | cut -c1-400)"
	elif [ $rc -eq 0 ]; then
		echo "$name $p($mode): missed ($((t1 - t0))s)"
	else
		echo "$name $p($mode): exit $rc"; tail -n 5 "$scratch/run.log"
	fi
done
