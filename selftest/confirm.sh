#!/bin/sh
# confirm.sh <dir with patch.diff and demo_test.go>
# Confirms a seeded change in a scratch worktree: (1) baseline tests pass with the patch,
# (2) the demonstration fails with the patch, (3) the demonstration passes without it.
cd "$(dirname "$0")/.." || exit 2
export GOFLAGS=-mod=mod GOPROXY=off GOSUMDB=off GOTOOLCHAIN=local
d=$(readlink -f "$1")
scratch=$(mktemp -d /tmp/verif-conf.XXXXXX) || exit 2
trap 'git -C /repo worktree remove --force "$scratch/wt" >/dev/null 2>&1; rm -rf "$scratch"' EXIT INT TERM
git -C /repo worktree add --detach "$scratch/wt" HEAD >/dev/null 2>&1 || exit 2
cd "$scratch/wt" || exit 2
cp "$d/demo_test.go" ./zz_demo_test.go
if go test -vet=off -count=1 -run 'TestMutantDemo' . >"$scratch/a.log" 2>&1; then r3=pass; else r3=FAIL; fi
rm -f zz_demo_test.go
git apply "$d/patch.diff" || { echo "$1: patch does not apply"; exit 2; }
r1=pass
for i in 1 2 3; do
	go test -vet=off -count=1 ./... >"$scratch/b.log" 2>&1 || r1=FAIL
done
cp "$d/demo_test.go" ./zz_demo_test.go
if go test -vet=off -count=1 -run 'TestMutantDemo' . >"$scratch/c.log" 2>&1; then r2=pass; else r2=FAIL; fi
echo "$1: baseline-with-patch=$r1 demo-with-patch=$r2 demo-without-patch=$r3"
[ "$r1" = pass ] && [ "$r2" = FAIL ] && [ "$r3" = pass ]
