#!/bin/sh
# Determinism self-test: the same VERIF_SEED must give byte-identical event logs in every process,
# whatever GOMAXPROCS is. For each property: N processes per seed over several seeds, at GOMAXPROCS
# 1/4/16; the SHA-256 of the full per-run log (scenario hash, calls, units, suspension count,
# violation text) must be one single value per (property, seed).
cd "$(dirname "$0")/.." || exit 2
export GOFLAGS=-mod=mod GOPROXY=off GOSUMDB=off GOTOOLCHAIN=local
go build -o .bin/simcheck ./cmd/simcheck || exit 2
procs=${1:-30}; runs=${2:-400}
rc=0
# no map iteration may feed an outcome: list the places that range over maps for the record
echo "map ranges in the harness (each must be order-insensitive: set merge, counting, or sorted before output):"
grep -n "range .*\(Faults\|Probes\|Drivers\|Verdicts\|Cuts\|Susp\|Triples\|Inter\|groups\|seenAll\|KnownHits\|pool\|owner\)" sim/*.go oracle/*.go cmd/simcheck/*.go | sed 's/^/  /'
grep -n "sync\.Map" sim/*.go oracle/*.go sut/*.go gen/*.go cmd/simcheck/*.go && echo "  (sync.Map found!)"
for prop in C01 C02 C03 C04 C05 C06 C10 C11 C12 C13 C19; do
	for seed in 1 20261002 987654321; do
		tmp=$(mktemp -d /tmp/verif-det.XXXXXX)
		i=0
		while [ $i -lt $procs ]; do
			case $((i % 3)) in 0) gmp=1 ;; 1) gmp=4 ;; *) gmp=16 ;; esac
			( GOMAXPROCS=$gmp VERIF_SEED=$seed ./.bin/simcheck -prop $prop -runs $runs -eventlog | sha256sum | cut -d' ' -f1 > "$tmp/$i.sum" ) &
			i=$((i + 1))
			[ $((i % 16)) -eq 0 ] && wait
		done
		wait
		n=$(cat "$tmp"/*.sum | sort -u | wc -l)
		if [ "$n" = 1 ]; then echo "$prop seed=$seed: $procs processes x $runs runs identical ($(head -c 12 "$tmp/0.sum"))"; else echo "$prop seed=$seed: NON-DETERMINISTIC ($n distinct logs)"; rc=1; fi
		rm -rf "$tmp"
	done
done
exit $rc
