#!/bin/sh
# Statement coverage of the library reached by the checks' populations (a reach measure for the
# workload generators, not an oracle): builds simcheck with -cover for package sipsp, runs every
# check with a reduced run count, prints the functions below 100% and the total.
cd "$(dirname "$0")/.." || exit 2
export GOFLAGS=-mod=mod GOPROXY=off GOSUMDB=off GOTOOLCHAIN=local
runs=${1:-40000}
tmp=$(mktemp -d /tmp/verif-cov.XXXXXX) || exit 2
trap 'rm -rf "$tmp"' EXIT INT TERM
mkdir "$tmp/data"
go build -cover -coverpkg=verif/...,github.com/intuitivelabs/sipsp -o "$tmp/simcheck-cov" ./cmd/simcheck || exit 2
for p in C01 C02 C03 C04 C05 C06 C10 C11 C12 C13 C19; do
	GOCOVERDIR="$tmp/data" "$tmp/simcheck-cov" -prop $p -runs $runs -no-evidence >/dev/null 2>&1
done
go tool covdata textfmt -i="$tmp/data" -o "$tmp/cov.txt"
grep -v "^verif/" "$tmp/cov.txt" > "$tmp/lib.txt"
go tool cover -func="$tmp/lib.txt" | sed 's#github.com/intuitivelabs/sipsp/##' | awk '$NF+0 < 100 || $1=="total:"'
