#!/bin/sh
# automut_one.sh <n> <runs> <resultdir> : one syntactic mutant of /repo (cmd/mutgen), in a scratch copy under /tmp.
# Writes one line to <resultdir>/<n>.txt:  <n> nobuild | tests | caught <prop> <secs> | survived | error <prop> <rc>
cd "$(dirname "$0")/.." || exit 2
export GOFLAGS=-mod=mod GOPROXY=off GOSUMDB=off GOTOOLCHAIN=local
n=$1; runs=$2; res=$3; props=${4:-"C04 C02 C01 C03 C05 C06 C10 C11 C12 C13 C19"}
d=$(mktemp -d /tmp/verif-am.XXXXXX) || exit 2
trap 'rm -rf "$d"' EXIT INT TERM
./.bin/mutgen -src /repo -dst "$d/wt" -n "$n" > "$d/m.json" || { echo "$n nomutant" > "$res/$n.txt"; exit 0; }
if ! (cd "$d/wt" && go build ./... ) >/dev/null 2>&1; then echo "$n nobuild" > "$res/$n.txt"; exit 0; fi
if ! (cd "$d/wt" && timeout 120 go test -vet=off -count=1 ./... ) >/dev/null 2>&1; then echo "$n tests" > "$res/$n.txt"; exit 0; fi
[ "$runs" = 0 ] && { echo "$n passes-tests" > "$res/$n.txt"; exit 0; }
sed "s#=> /repo#=> $d/wt#" go.mod > "$d/go.mod"; cp go.sum "$d/go.sum"
if ! go build -modfile="$d/go.mod" -o "$d/simcheck" ./cmd/simcheck >/dev/null 2>&1; then echo "$n harness-nobuild" > "$res/$n.txt"; exit 0; fi
for p in $props; do
	t0=$(date +%s)
	timeout 900 "$d/simcheck" -prop "$p" -tier quick -runs "$runs" -workers 1 -no-evidence -out "$d/out" >"$d/run.log" 2>&1
	rc=$?
	t1=$(date +%s)
	if [ $rc -eq 1 ]; then
		echo "$n caught $p $((t1 - t0))s $(grep -E '^minimised' "$d/run.log" | head -n 1 | cut -c1-220)" > "$res/$n.txt"; exit 0
	elif [ $rc -ne 0 ]; then
		echo "$n error $p rc=$rc $(tail -n 2 "$d/run.log" | tr '\n' ' ' | cut -c1-200)" > "$res/$n.txt"; exit 0
	fi
done
echo "$n survived" > "$res/$n.txt"
