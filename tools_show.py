import json,sys
for f in sys.argv[1:]:
    r=json.load(open(f))
    print(f); print(' ', r['property'], r['monitor'], r['detail'][:700])
    sc=r['scenario']
    for i,c in enumerate(sc.get('conns') or []):
        raw=bytes.fromhex(c.get('raw','')) if c.get('raw') else None
        print(' conn',i,'cfg',{k:v for k,v in c['cfg'].items()},'obj',c['obj'],'reset_by',c.get('reset_by'),'compact',c.get('compact'),'junk',bytes.fromhex(c['junk']) if c.get('junk') else None)
        if raw is not None: print('   raw',raw)
        for m in c.get('msgs') or []:
            print('   msg fl=%r ft=%r blank=%r body=%r'%(m['fl'],m['ft'],m['b'],bytes.fromhex(m.get('body',''))[:60]))
            for h in m['h']:
                print('     hdr',json.dumps(h))
    print(' events',[(e['op'],e['conn'],e.get('upto'),e.get('eof')) if e['op']!='corrupt' else ('corrupt',e['conn'],e.get('pos'),e.get('byte')) for e in (sc.get('events') or [])])
    if sc.get('tasks'):
        for t in sc['tasks']:
            print(' task',t['fn'],bytes.fromhex(t.get('a','')),bytes.fromhex(t.get('b','')),t.get('n1'),t.get('n2'),t.get('n3'),t.get('cfg'),t.get('cuts'))
        print(' sched',sc.get('sched'))
    if sc.get('forks'): print(' forks',[bytes.fromhex(x) for x in sc['forks']])
