#!/bin/sh
# check.sh <property> <quick|thorough>          decide a property by deterministic simulation
# check.sh --replay <file>                      re-execute a replay file (fresh process)
# Exit: 0 held / 1 violation ("VIOLATION property=<id> replay=<path>") / 2 infrastructure trouble.
# Always rebuilds the harness against /repo's current working tree.
cd "$(dirname "$0")" || exit 2
export GOFLAGS=-mod=mod GOPROXY=off GOSUMDB=off GOTOOLCHAIN=local
mkdir -p .bin out evidence
if ! go build -o .bin/simcheck ./cmd/simcheck 2>.bin/build.log; then
	echo "INFRASTRUCTURE: harness does not build against /repo's working tree:"; cat .bin/build.log; exit 2
fi
if [ "$1" = "--replay" ]; then
	exec ./.bin/simcheck -replay "$2"
fi
prop="$1"; tier="${2:-quick}"
case "$prop" in
C04)
	# C04 adds the loop-level interleaving pass on a yield-instrumented scratch copy (both tiers)
	# and the race-detector pass (thorough)
	exec ./c04.sh "$tier"
	;;
esac
exec ./.bin/simcheck -prop "$prop" -tier "$tier"
