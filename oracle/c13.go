package oracle

import (
	"fmt"
	"strings"

	"github.com/intuitivelabs/sipsp"

	"verif/sut"
)

// C13: the receiver with caller-chosen (small) capacities and a lock-step
// shadow with ample capacities saw the same deliveries. Everything except what
// is *stored* in the caller's arrays must agree; what is stored must be a
// prefix of what the ample arrays hold.

func snapEq(label string, f func(r *sut.Rec, small bool)) string {
	var a, b sut.Rec
	a.Reset(0, 1<<20)
	b.Reset(0, 1<<20)
	f(&a, true)
	f(&b, false)
	if sut.EqualV(a.V, b.V) {
		return ""
	}
	a.Verbose, b.Verbose = true, true
	a.Reset(0, 1<<20)
	b.Reset(0, 1<<20)
	f(&a, true)
	f(&b, false)
	return label + " differs between small and ample capacity: " + strings.Join(sut.Diff(&a, &b, 5), "; ")
}

func fromEq(a, b *sipsp.PFromBody) bool {
	var ra, rb sut.Rec
	ra.Reset(0, 1<<20)
	rb.Reset(0, 1<<20)
	sut.SnapFrom(&ra, a)
	sut.SnapFrom(&rb, b)
	return sut.EqualV(ra.V, rb.V)
}

func c13Contacts(s, a *sipsp.PContacts, capS int) string {
	if d := snapEq("Contacts summary", func(r *sut.Rec, small bool) {
		c := a
		if small {
			c = s
		}
		r.Val("N", int64(c.N))
		r.Val("HNo", int64(c.HNo))
		r.Val("MaxExpires", int64(c.MaxExpires))
		r.Val("MinExpires", int64(c.MinExpires))
		r.Fld("LastHVal", c.LastHVal)
		r.Bool("Empty()", c.Empty())
		r.Bool("Parsed()", c.Parsed())
	}); d != "" {
		return d
	}
	capS = len(s.Vals) // what the object really has (the default array size is the library's business)
	stored := s.N
	if stored > capS {
		stored = capS
	}
	if s.VNo() != stored {
		return fmt.Sprintf("Contacts.VNo()=%d with capacity %d and N=%d", s.VNo(), capS, s.N)
	}
	if s.More() != (s.N > capS) {
		return fmt.Sprintf("Contacts.More()=%v with capacity %d and N=%d", s.More(), capS, s.N)
	}
	if a.N > len(a.Vals) {
		return "" // ample array not ample enough: nothing more to compare
	}
	for i := 0; i < stored; i++ {
		if !fromEq(&s.Vals[i], &a.Vals[i]) {
			return fmt.Sprintf("stored Contacts.Vals[%d] differs from what an ample array holds", i)
		}
	}
	if s.N > 0 {
		f := s.GetContact(0)
		if f == nil || !fromEq(f, &a.Vals[0]) {
			return fmt.Sprintf("first contact not retrievable with capacity %d (N=%d): GetContact(0) nil=%v", capS, s.N, f == nil)
		}
		l := s.GetContact(s.N - 1)
		if l == nil || !fromEq(l, &a.Vals[a.N-1]) {
			return fmt.Sprintf("last contact not retrievable with capacity %d (N=%d): GetContact(%d) nil=%v", capS, s.N, s.N-1, l == nil)
		}
	}
	return ""
}

func c13HL(s, a *sipsp.HdrLst) string {
	if d := snapEq("header list summary", func(r *sut.Rec, small bool) {
		h := a
		if small {
			h = s
		}
		r.Val("N", int64(h.N))
		r.Val("PFlags", int64(h.PFlags))
		for t := sipsp.HdrNone + 1; t < sipsp.HdrOther; t++ {
			o := r.InIdx("GetHdr", int(t))
			if g := h.GetHdr(t); g != nil && !g.Missing() {
				sut.SnapHdr(r, g)
			} else {
				r.Val("missing", 1)
			}
			r.Out(o)
		}
	}); d != "" {
		return d
	}
	stored := s.N
	if stored > len(s.Hdrs) {
		stored = len(s.Hdrs)
	}
	if a.N > len(a.Hdrs) {
		return ""
	}
	for i := 0; i < stored; i++ {
		x, y := &s.Hdrs[i], &a.Hdrs[i]
		if x.Type != y.Type || x.Name != y.Name || x.Val != y.Val {
			return fmt.Sprintf("stored Hdrs[%d] {%d %v %v} differs from what an ample array holds {%d %v %v}", i, x.Type, x.Name, x.Val, y.Type, y.Name, y.Val)
		}
	}
	return ""
}

func c13PV(s, a *sipsp.PHdrVals, conCap int) string {
	if d := snapEq("header values", func(r *sut.Rec, small bool) {
		p := a
		if small {
			p = s
		}
		o := r.In("From.")
		sut.SnapFrom(r, &p.From)
		r.Out(o)
		o = r.In("To.")
		sut.SnapFrom(r, &p.To)
		r.Out(o)
		o = r.In("Callid.")
		sut.SnapCallID(r, &p.Callid)
		r.Out(o)
		o = r.In("CSeq.")
		sut.SnapCSeq(r, &p.CSeq)
		r.Out(o)
		o = r.In("CLen.")
		sut.SnapUInt(r, &p.CLen)
		r.Out(o)
		o = r.In("Expires.")
		sut.SnapUInt(r, &p.Expires)
		r.Out(o)
		o = r.In("PAIs.")
		sut.SnapPAIs(r, &p.PAIs)
		r.Out(o)
		mx, ok := p.MaxExpires()
		r.Val("MaxExpires().v", int64(mx))
		r.Bool("MaxExpires().ok", ok)
	}); d != "" {
		return d
	}
	return c13Contacts(&s.Contacts, &a.Contacts, conCap)
}

func C13(cfg sut.Cfg, small, ample sut.Driver, buf []byte, ret int, err sipsp.ErrorHdr, aret int, aerr sipsp.ErrorHdr, definitive bool) string {
	if ret != aret || err != aerr {
		return fmt.Sprintf("verdict (%d,%d %q) with the caller's capacities, (%d,%d %q) with ample ones", ret, err, err, aret, aerr, aerr)
	}
	// values are compared on successful verdicts ("for all successfully parsed inputs")
	if !definitive || !(err == sipsp.ErrHdrOk || err == sipsp.ErrHdrMoreValues || err == sipsp.ErrHdrEOH) {
		return ""
	}
	switch s := small.(type) {
	case *sut.MsgD:
		a := ample.(*sut.MsgD)
		if d := snapEq("message", func(r *sut.Rec, sm bool) {
			m := &a.M
			if sm {
				m = &s.M
			}
			sut.SnapFLine(r, &m.FL)
			r.Fld("Body", m.Body)
			r.Bool("Parsed()", m.Parsed())
			r.Bool("Err()", m.Err())
			r.Bool("Request()", m.Request())
			r.Val("Method()", int64(m.Method()))
			r.Val("len(Buf)", int64(len(m.Buf)))
			r.Val("len(RawMsg)", int64(len(m.RawMsg)))
		}); d != "" {
			return d
		}
		if d := c13HL(&s.M.HL, &a.M.HL); d != "" {
			return d
		}
		hc := cfg.ConCap
		if hc < 0 && cfg.HdrCap != -2 {
			hc = 10 // documented default array
		}
		if cfg.HdrCap == -2 {
			hc = 0
		}
		if d := c13PV(&s.M.PV, &a.M.PV, hc); d != "" {
			return d
		}
		// signature: equal, or the explicit truncated indication
		if err == 0 {
			ss, se := sipsp.GetMsgSig(&s.M)
			as, ae := sipsp.GetMsgSig(&a.M)
			if !(ss == as && se == ae) && se != sipsp.ErrHdrTrunc {
				return fmt.Sprintf("signature %q/%d with the caller's capacities, %q/%d with ample ones, and no truncated indication", ss.String(), se, as.String(), ae)
			}
		}
	case *sut.HeadersD:
		a := ample.(*sut.HeadersD)
		if d := c13HL(&s.HL, &a.HL); d != "" {
			return d
		}
		if !cfg.NoHB {
			return c13PV(&s.PV, &a.PV, cfg.ConCap)
		}
	case *sut.HdrLineD:
		a := ample.(*sut.HdrLineD)
		if s.H.Type != a.H.Type || s.H.Name != a.H.Name || s.H.Val != a.H.Val {
			return "header line result depends on the contact capacity"
		}
		if !cfg.NoHB {
			return c13PV(&s.PV, &a.PV, cfg.ConCap)
		}
	case *sut.ContactsD:
		a := ample.(*sut.ContactsD)
		return c13Contacts(&s.C, &a.C, cfg.ConCap)
	case *sut.URIParamsD:
		a := ample.(*sut.URIParamsD)
		capS := cfg.ParCap
		if capS < 0 {
			capS = 0
		}
		if s.L.N != a.L.N || s.L.Types != a.L.Types || s.L.Empty() != a.L.Empty() {
			return fmt.Sprintf("URI params N/Types %d/%#x with capacity %d, %d/%#x with an ample one", s.L.N, s.L.Types, capS, a.L.N, a.L.Types)
		}
		if s.L.More() != (s.L.N > capS) {
			return fmt.Sprintf("URIParamsLst.More()=%v with capacity %d and N=%d", s.L.More(), capS, s.L.N)
		}
		for i := 0; i < s.L.PNo() && i < len(s.L.Params) && i < len(a.L.Params); i++ {
			if s.L.Params[i].T != a.L.Params[i].T || s.L.Params[i].Param.All != a.L.Params[i].Param.All ||
				s.L.Params[i].Param.Name != a.L.Params[i].Param.Name || s.L.Params[i].Param.Val != a.L.Params[i].Param.Val {
				return fmt.Sprintf("stored URI param %d differs from what an ample array holds", i)
			}
		}
	case *sut.URIHdrsD:
		a := ample.(*sut.URIHdrsD)
		capS := cfg.ParCap
		if capS < 0 {
			capS = 0
		}
		if s.L.N != a.L.N || s.L.Empty() != a.L.Empty() {
			return fmt.Sprintf("URI headers N %d with capacity %d, %d with an ample one", s.L.N, capS, a.L.N)
		}
		if s.L.More() != (s.L.N > capS) {
			return fmt.Sprintf("URIHdrsLst.More()=%v with capacity %d and N=%d", s.L.More(), capS, s.L.N)
		}
		for i := 0; i < s.L.HNo() && i < len(s.L.Hdrs) && i < len(a.L.Hdrs); i++ {
			if s.L.Hdrs[i].All != a.L.Hdrs[i].All || s.L.Hdrs[i].Name != a.L.Hdrs[i].Name || s.L.Hdrs[i].Val != a.L.Hdrs[i].Val {
				return fmt.Sprintf("stored URI header %d differs from what an ample array holds", i)
			}
		}
	}
	return ""
}
