// Package oracle holds the result oracles that do not need a second execution
// of the library: structural invariants (C05), the framing reference model
// (C06), the numeric oracle (C10), the capacity projection (C13) and the
// signature relations and model (C19).
package oracle

import (
	"bytes"
	"fmt"

	"github.com/intuitivelabs/sipsp"

	"verif/gen"
)

// UnitResult is one entry of a connection's emitted history.
type UnitResult struct {
	Conn, Unit  int
	Start, Ret  int
	Err         sipsp.ErrorHdr
	Definitive  bool
	Calls       int
	BufLen      int
	EOF         bool
	MsgIdx      int
	StreamStart int
	Sig         *SigObs
	Body        []byte
}

func isEOL(c byte) bool { return c == '\r' || c == '\n' }
func isWS(c byte) bool  { return c == ' ' || c == '\t' }

// eolLen: length of the line terminator at p (CRLF=2, CR or LF=1, else 0).
func eolLen(b []byte, p int) int {
	if p >= len(b) {
		return 0
	}
	if b[p] == '\r' {
		if p+1 < len(b) && b[p+1] == '\n' {
			return 2
		}
		return 1
	}
	if b[p] == '\n' {
		return 1
	}
	return 0
}

type line struct{ start, eol, next int }

// logicalLines segments b[from:] into logical lines (a line end followed by
// SP/HT is a fold, not an end) up to and including the first empty line.
// It returns the lines, the offset after the empty line, and ok=false if no
// empty line exists. Written from RFC 3261 7.3.1 + the README's "CRLF, CR or
// LF" liberality; it does not look at the implementation.
func logicalLines(b []byte, from int) ([]line, int, bool) {
	var ls []line
	p := from
	for p < len(b) {
		if n := eolLen(b, p); n > 0 {
			return ls, p + n, true // empty line
		}
		q := p
		for {
			for q < len(b) && !isEOL(b[q]) {
				q++
			}
			if q >= len(b) {
				return ls, 0, false
			}
			n := eolLen(b, q)
			if q+n < len(b) && isWS(b[q+n]) {
				q += n // fold
				continue
			}
			ls = append(ls, line{p, q, q + n})
			p = q + n
			break
		}
	}
	return ls, 0, false
}

func inside(f sipsp.PField, lo, hi int) bool {
	if f.Len == 0 {
		return true
	}
	return int(f.Offs) >= lo && int(f.Offs)+int(f.Len) <= hi
}

func fend(f sipsp.PField) int { return int(f.Offs) + int(f.Len) }

func fstr(name string, f sipsp.PField) string {
	return fmt.Sprintf("%s={%d,%d}", name, f.Offs, f.Len)
}

// ordered: non-empty fields appear in this order without overlap.
func ordered(fs ...sipsp.PField) bool {
	last := -1
	for _, f := range fs {
		if f.Len == 0 {
			continue
		}
		if int(f.Offs) < last {
			return false
		}
		last = fend(f)
	}
	return true
}

func checkNameAddr(what string, f *sipsp.PFromBody, lo, hi int) string {
	if !inside(f.V, lo, hi) {
		return fmt.Sprintf("%s %s not inside its header line [%d,%d)", what, fstr("V", f.V), lo, hi)
	}
	vlo, vhi := int(f.V.Offs), fend(f.V)
	for _, x := range []struct {
		n string
		f sipsp.PField
	}{{"Name", f.Name}, {"URI", f.URI}, {"Params", f.Params}} {
		if !inside(x.f, vlo, vhi) {
			return fmt.Sprintf("%s %s not inside %s", what, fstr(x.n, x.f), fstr("V", f.V))
		}
	}
	if f.Tag.Len > 0 && !inside(f.Tag, int(f.Params.Offs), fend(f.Params)) {
		return fmt.Sprintf("%s %s not inside %s", what, fstr("Tag", f.Tag), fstr("Params", f.Params))
	}
	if !ordered(f.Name, f.URI, f.Params) {
		return fmt.Sprintf("%s display name / URI / parameters out of order: %s %s %s", what, fstr("Name", f.Name), fstr("URI", f.URI), fstr("Params", f.Params))
	}
	return ""
}

// C05 checks the structural relations between the fields of an accepted
// message. buf is the buffer of the final call, the message started at start
// and the parser returned ret.
func C05(m *sipsp.PSIPMsg, buf []byte, start, ret int) string {
	if ret < start || ret > len(buf) {
		return fmt.Sprintf("returned offset %d outside [%d,%d]", ret, start, len(buf))
	}
	// raw message and buffer views
	if !bytes.Equal(m.RawMsg, buf[start:ret]) || len(m.RawMsg) != ret-start {
		return fmt.Sprintf("RawMsg (len %d) is not buf[%d:%d]", len(m.RawMsg), start, ret)
	}
	// (the property fixes the bytes of the raw-message view; it says nothing about msg.Buf, which the
	// doc comment only calls "a reference to buf[]")
	// first line
	fe := start
	for fe < len(buf) && !isEOL(buf[fe]) {
		fe++
	}
	fl := &m.FL
	for _, x := range []struct {
		n string
		f sipsp.PField
	}{{"Method", fl.Method}, {"URI", fl.URI}, {"Version", fl.Version}, {"StatusCode", fl.StatusCode}, {"Reason", fl.Reason}} {
		if !inside(x.f, start, fe) {
			return fmt.Sprintf("first-line field %s outside the first line [%d,%d)", fstr(x.n, x.f), start, fe)
		}
	}
	// which kind of line it is follows from which fields are reported (Request() is derived from
	// the numeric status and calls a "000" status line a request - that is C08's business)
	if fl.StatusCode.Len == 0 {
		if !ordered(fl.Method, fl.URI, fl.Version) || fl.Method.Len == 0 || fl.URI.Len == 0 || fl.Version.Len == 0 {
			return fmt.Sprintf("request line fields missing or out of order: %s %s %s", fstr("Method", fl.Method), fstr("URI", fl.URI), fstr("Version", fl.Version))
		}
	} else {
		if !ordered(fl.Version, fl.StatusCode, fl.Reason) || fl.Version.Len == 0 || fl.StatusCode.Len == 0 {
			return fmt.Sprintf("status line fields missing or out of order: %s %s %s", fstr("Version", fl.Version), fstr("StatusCode", fl.StatusCode), fstr("Reason", fl.Reason))
		}
	}
	hs := fe + eolLen(buf, fe) // start of the header block
	lines, hend, ok := logicalLines(buf[:len(buf)], hs)
	if !ok {
		return fmt.Sprintf("message accepted but no empty line found after offset %d", hs)
	}
	// body
	if m.Body.Len == 0 {
		if ret != hend {
			return fmt.Sprintf("empty body but returned offset %d != end of header block %d", ret, hend)
		}
	} else {
		if int(m.Body.Offs) != hend {
			return fmt.Sprintf("%s does not start at the end of the header block %d", fstr("Body", m.Body), hend)
		}
		if fend(m.Body) != ret {
			return fmt.Sprintf("%s does not end at the returned offset %d", fstr("Body", m.Body), ret)
		}
	}
	n := m.HL.N
	if n > len(m.HL.Hdrs) {
		n = len(m.HL.Hdrs)
	}
	lineOf := func(f sipsp.PField) int {
		for i, l := range lines {
			if int(f.Offs) >= l.start && fend(f) <= l.eol {
				return i
			}
		}
		return -1
	}
	prevLine := -1
	for i := 0; i < n; i++ {
		h := &m.HL.Hdrs[i]
		if h.Name.Len == 0 {
			return fmt.Sprintf("Hdrs[%d] has an empty name", i)
		}
		li := lineOf(h.Name)
		if li < 0 {
			return fmt.Sprintf("Hdrs[%d] %s does not lie inside any line of the header block [%d,%d)", i, fstr("Name", h.Name), hs, hend)
		}
		if li <= prevLine {
			return fmt.Sprintf("Hdrs[%d] %s lies in header line %d, not after the previous stored header's line %d", i, fstr("Name", h.Name), li, prevLine)
		}
		prevLine = li
		l := lines[li]
		for _, c := range h.Name.Get(buf) {
			if isWS(c) || isEOL(c) {
				return fmt.Sprintf("Hdrs[%d] name %q contains whitespace", i, h.Name.Get(buf))
			}
		}
		if h.Val.Len > 0 {
			if !inside(h.Val, fend(h.Name), l.eol) {
				return fmt.Sprintf("Hdrs[%d] (type %d) %s not inside its own line after the name: line [%d,%d) %s", i, h.Type, fstr("Val", h.Val), l.start, l.eol, fstr("Name", h.Name))
			}
			v := h.Val.Get(buf)
			if isWS(v[0]) || isEOL(v[0]) || isWS(v[len(v)-1]) || isEOL(v[len(v)-1]) {
				return fmt.Sprintf("Hdrs[%d] (type %d) value %q is not trimmed", i, h.Type, v)
			}
		}
	}
	// first-of-type table
	for t := sipsp.HdrNone + 1; t < sipsp.HdrOther; t++ {
		g := m.HL.GetHdr(t)
		first := -1
		for i := 0; i < n; i++ {
			if m.HL.Hdrs[i].Type == t {
				first = i
				break
			}
		}
		if g == nil || g.Missing() { // ("If no corresponding header was parsed it returns nil")
			if first >= 0 {
				return fmt.Sprintf("GetHdr(%d) is missing but Hdrs[%d] has that type", t, first)
			}
			continue
		}
		if g.Type != t {
			return fmt.Sprintf("GetHdr(%d) holds a header of type %d", t, g.Type)
		}
		if first >= 0 && (g.Name != m.HL.Hdrs[first].Name || g.Val != m.HL.Hdrs[first].Val) {
			// it may legitimately be an earlier header only if that one is stored too - it is not
			return fmt.Sprintf("GetHdr(%d) %s is not the first stored header of that type Hdrs[%d] %s", t, fstr("Name", g.Name), first, fstr("Name", m.HL.Hdrs[first].Name))
		}
		li := lineOf(g.Name)
		if li < 0 || lines[li].start != int(g.Name.Offs) {
			return fmt.Sprintf("GetHdr(%d) %s does not sit at the start of a header line", t, fstr("Name", g.Name))
		}
		// the shortcut's value lies inside that same line, after the name (also when the header
		// itself was not stored in the caller's array)
		if g.Val.Len > 0 && !inside(g.Val, fend(g.Name), lines[li].eol) {
			return fmt.Sprintf("GetHdr(%d) %s not inside its own line [%d,%d) after %s", t, fstr("Val", g.Val), lines[li].start, lines[li].eol, fstr("Name", g.Name))
		}
	}
	// header specific values
	hdrLine := func(t sipsp.HdrT) (int, int, bool) {
		g := m.HL.GetHdr(t)
		if g == nil || g.Missing() {
			return 0, 0, false
		}
		li := lineOf(g.Name)
		if li < 0 {
			return 0, 0, false
		}
		return lines[li].start, lines[li].eol, true
	}
	pv := &m.PV
	if pv.From.Parsed() {
		if lo, hi, ok := hdrLine(sipsp.HdrFrom); ok {
			if d := checkNameAddr("From", &pv.From, lo, hi); d != "" {
				return d
			}
		} else {
			return "From value parsed but no From header in the first-of-type table"
		}
	}
	if pv.To.Parsed() {
		if lo, hi, ok := hdrLine(sipsp.HdrTo); ok {
			if d := checkNameAddr("To", &pv.To, lo, hi); d != "" {
				return d
			}
		} else {
			return "To value parsed but no To header in the first-of-type table"
		}
	}
	if pv.CSeq.Parsed() {
		lo, hi, ok := hdrLine(sipsp.HdrCSeq)
		if !ok || !inside(pv.CSeq.V, lo, hi) {
			return fmt.Sprintf("CSeq %s not inside the CSeq header line", fstr("V", pv.CSeq.V))
		}
		if !inside(pv.CSeq.CSeq, int(pv.CSeq.V.Offs), fend(pv.CSeq.V)) || !inside(pv.CSeq.Method, int(pv.CSeq.V.Offs), fend(pv.CSeq.V)) ||
			!ordered(pv.CSeq.CSeq, pv.CSeq.Method) || pv.CSeq.CSeq.Len == 0 || pv.CSeq.Method.Len == 0 {
			return fmt.Sprintf("CSeq number/method not nested in order inside the value: %s %s %s", fstr("CSeq", pv.CSeq.CSeq), fstr("Method", pv.CSeq.Method), fstr("V", pv.CSeq.V))
		}
	}
	if pv.Callid.Parsed() {
		lo, hi, ok := hdrLine(sipsp.HdrCallID)
		if !ok || !inside(pv.Callid.CallID, lo, hi) {
			return fmt.Sprintf("Call-ID %s not inside the Call-ID header line", fstr("CallID", pv.Callid.CallID))
		}
	}
	if pv.CLen.Parsed() {
		lo, hi, ok := hdrLine(sipsp.HdrCLen)
		if !ok || !inside(pv.CLen.SVal, lo, hi) {
			return fmt.Sprintf("Content-Length %s not inside the Content-Length header line", fstr("SVal", pv.CLen.SVal))
		}
	}
	if pv.Expires.Parsed() {
		lo, hi, ok := hdrLine(sipsp.HdrExpires)
		if !ok || !inside(pv.Expires.SVal, lo, hi) {
			return fmt.Sprintf("Expires %s not inside the Expires header line", fstr("SVal", pv.Expires.SVal))
		}
	}
	// multi-value lists: each value nests, values are in order, each inside a line of the right kind
	lastEnd := -1
	for i := 0; i < pv.Contacts.VNo() && i < len(pv.Contacts.Vals); i++ {
		v := &pv.Contacts.Vals[i]
		li := lineOf(v.V)
		if li < 0 {
			return fmt.Sprintf("Contacts.Vals[%d] %s not inside any header line", i, fstr("V", v.V))
		}
		if gen.KnownKind(nameOfLine(buf, lines[li])) != "contact" {
			return fmt.Sprintf("Contacts.Vals[%d] %s lies in a non-Contact header line %q", i, fstr("V", v.V), nameOfLine(buf, lines[li]))
		}
		if d := checkNameAddr(fmt.Sprintf("Contacts.Vals[%d]", i), v, lines[li].start, lines[li].eol); d != "" {
			return d
		}
		if int(v.V.Offs) < lastEnd {
			return fmt.Sprintf("Contacts.Vals[%d] %s overlaps or precedes the previous value (ends %d)", i, fstr("V", v.V), lastEnd)
		}
		if v.V.Len > 0 {
			lastEnd = fend(v.V)
		}
	}
	lastEnd = -1
	for i := 0; i < pv.PAIs.VNo() && i < len(pv.PAIs.Vals); i++ {
		v := &pv.PAIs.Vals[i]
		li := lineOf(v.V)
		if li < 0 {
			return fmt.Sprintf("PAIs.Vals[%d] %s not inside any header line", i, fstr("V", v.V))
		}
		if gen.KnownKind(nameOfLine(buf, lines[li])) != "p-asserted-identity" {
			return fmt.Sprintf("PAIs.Vals[%d] %s lies in a non-PAI header line %q", i, fstr("V", v.V), nameOfLine(buf, lines[li]))
		}
		if d := checkNameAddr(fmt.Sprintf("PAIs.Vals[%d]", i), v, lines[li].start, lines[li].eol); d != "" {
			return d
		}
		if int(v.V.Offs) < lastEnd {
			return fmt.Sprintf("PAIs.Vals[%d] %s overlaps or precedes the previous value (ends %d)", i, fstr("V", v.V), lastEnd)
		}
		if v.V.Len > 0 {
			lastEnd = fend(v.V)
		}
	}
	return ""
}

func nameOfLine(b []byte, l line) string {
	q := l.start
	for q < l.eol && b[q] != ':' && !isWS(b[q]) {
		q++
	}
	return string(b[l.start:q])
}
