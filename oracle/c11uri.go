package oracle

import (
	"bytes"
	"fmt"

	"github.com/intuitivelabs/sipsp"
)

// C11, relocation clause: a URI the message reports is parsed on its own (at
// offset 0 of its sub-slice, as ParseURI is documented to work), relocated to
// where the text sits in the receive buffer, and then follows the buffer
// through a history of moves (what a receiver does when it compacts or grows
// its buffer while keeping parsed URIs). After every move each component must
// denote the same bytes as when it was parsed, and a span too short for the
// URI must be refused leaving the structure untouched.

type uriView struct{ scheme, user, pass, host, port, params, headers, long, short []byte }

func viewOf(u *sipsp.PsipURI, b []byte) (v uriView, ok bool) {
	for _, f := range []sipsp.PField{u.Scheme, u.User, u.Pass, u.Host, u.Port, u.Params, u.Headers} {
		if int(f.Offs)+int(f.Len) > len(b) {
			return v, false
		}
	}
	// the derived views move with the URI too (Long() / Short() / Flat())
	l, sh := u.Long(), u.Short()
	if int(l.Offs)+int(l.Len) > len(b) || int(sh.Offs)+int(sh.Len) > len(b) {
		return v, false
	}
	return uriView{u.Scheme.Get(b), u.User.Get(b), u.Pass.Get(b), u.Host.Get(b), u.Port.Get(b), u.Params.Get(b), u.Headers.Get(b), l.Get(b), sh.Get(b)}, true
}

func (a uriView) eq(b uriView) bool {
	return bytes.Equal(a.scheme, b.scheme) && bytes.Equal(a.user, b.user) && bytes.Equal(a.pass, b.pass) && bytes.Equal(a.host, b.host) &&
		bytes.Equal(a.port, b.port) && bytes.Equal(a.params, b.params) && bytes.Equal(a.headers, b.headers) &&
		bytes.Equal(a.long, b.long) && bytes.Equal(a.short, b.short)
}

// C11URIMoves checks one URI text sitting at buf[f]. moves are further buffer
// positions (derived from the scenario, not drawn here).
func C11URIMoves(what string, buf []byte, f sipsp.PField, moves []int) (res string) {
	if f.Len < 5 {
		return ""
	}
	txt := append([]byte(nil), f.Get(buf)...)
	var u sipsp.PsipURI
	defer func() {
		if r := recover(); r != nil {
			res = fmt.Sprintf("%s URI %q: relocation panicked: %v", what, txt, r)
		}
	}()
	if e, _ := sipsp.ParseURI(txt, &u); e != 0 {
		return ""
	}
	orig, ok := viewOf(&u, txt)
	if !ok {
		return ""
	}
	portNo, typ := u.PortNo, u.URIType
	pos := int(f.Offs)
	cur := buf
	step := func(np int, span int) string {
		before := u
		okm := u.AdjustOffs(sipsp.PField{Offs: sipsp.OffsT(np), Len: sipsp.OffsT(span)})
		if span < len(txt) {
			// shorter than the text: must be refused when even the last non-empty component does not
			// fit; for a span that only cuts off trailing delimiters / empty components either answer
			// is acceptable, but a refusal must leave the structure untouched and an acceptance must
			// keep every component inside the span
			if okm && span < int(before.Long().Len) {
				return fmt.Sprintf("%s URI %q (long form %d bytes): relocation into a span of %d bytes was accepted", what, txt, before.Long().Len, span)
			}
			if !okm {
				if u != before {
					return fmt.Sprintf("%s URI %q: refused relocation modified the structure", what, txt)
				}
				return ""
			}
		}
		if !okm {
			return fmt.Sprintf("%s URI %q (%d bytes): relocation from %d to %d (span %d) refused", what, txt, len(txt), pos, np, span)
		}
		nb := make([]byte, np+span)
		copy(nb[np:], txt)
		cur = nb
		pos = np
		v, ok := viewOf(&u, cur)
		if !ok {
			return fmt.Sprintf("%s URI %q moved to %d: a component points outside the buffer", what, txt, np)
		}
		if !v.eq(orig) || u.PortNo != portNo || u.URIType != typ {
			return fmt.Sprintf("%s URI %q moved to %d: components changed: user %q->%q host %q->%q port %q->%q params %q->%q headers %q->%q long %q->%q short %q->%q",
				what, txt, np, orig.user, v.user, orig.host, v.host, orig.port, v.port, orig.params, v.params, orig.headers, v.headers, orig.long, v.long, orig.short, v.short)
		}
		return ""
	}
	// 0. a span that is too short, at the very place the URI already is ("nothing to move")
	if len(txt) > 5 {
		pos = 0
		if d := step(0, len(txt)-1-int(f.Offs)%2); d != "" {
			return d
		}
		pos = int(f.Offs)
	}
	// the list comparison helpers parse both operands from a caller-given offset: the answer for
	// the same two texts cannot depend on where each of them starts
	type eqf func([]byte, int, []byte, int) (bool, sipsp.ErrorHdr)
	for _, c := range []struct {
		n  string
		f  sipsp.PField
		eq eqf
	}{{"URIParamsEq", u.Params, sipsp.URIParamsEq}, {"URIHdrsEq", u.Headers, sipsp.URIHdrsEq}} {
		if c.f.Len == 0 || int(c.f.Offs)+int(c.f.Len) > len(txt) {
			continue
		}
		o, e := int(c.f.Offs), int(c.f.Offs)+int(c.f.Len)
		alone := append([]byte(nil), txt[o:e]...)
		inPlace := txt[:e]
		shifted := append(append([]byte(nil), "#;?&=x"[:1+o%6]...), alone...)
		k := len(shifted) - len(alone)
		r0, e0 := c.eq(alone, 0, alone, 0)
		for i, v := range [][4]interface{}{{inPlace, o, alone, 0}, {alone, 0, inPlace, o}, {inPlace, o, shifted, k}, {shifted, k, inPlace, o}} {
			r, er := c.eq(v[0].([]byte), v[1].(int), v[2].([]byte), v[3].(int))
			if r != r0 || er != e0 {
				return fmt.Sprintf("%s URI %q: %s of %q with itself = (%v,%d) at offsets 0/0 but (%v,%d) at offsets %d/%d (variant %d)", what, txt, c.n, alone, r0, e0, r, er, v[1].(int), v[3].(int), i)
			}
		}
	}
	// 1. from its own sub-slice to where it sits in the receive buffer (exact span)
	if d := step(int(f.Offs), len(txt)); d != "" {
		return d
	}
	if len(txt) > 5 {
		if d := step(int(f.Offs), len(txt)-1-int(f.Offs/2)%2); d != "" {
			return d
		}
	}
	if v, ok := viewOf(&u, buf); !ok || !v.eq(orig) {
		return fmt.Sprintf("%s URI %q relocated to its place %d in the receive buffer denotes other bytes", what, txt, f.Offs)
	}
	// 2. the buffer moves; always including the last admissible position (the URI ends exactly
	// at the 65,535 addressing limit)
	moves = append([]int{65535 - len(txt)}, moves...)
	for i, np := range moves {
		if np < 0 || np+len(txt) > 65535 {
			continue
		}
		span := len(txt) + i%3 // exact, or with slack
		if np+span > 65535 {
			span = len(txt)
		}
		if i == len(moves)-1 && len(txt) > 5 {
			// finally a span that is too short: must be refused, structure untouched
			if d := step(np, len(txt)-1-i%2); d != "" {
				return d
			}
			continue
		}
		if d := step(np, span); d != "" {
			return d
		}
	}
	// finally the usual "truncate, copy, relocate": without parameters and headers the URI is its
	// short form, and a span of exactly that length has room for it
	dangling := false // an empty component that still has a position ("sip:a:;x": empty port): its delimiter is not in Short()
	for _, f := range []sipsp.PField{u.User, u.Pass, u.Host, u.Port} {
		if f.Len == 0 && f.Offs != 0 {
			dangling = true
		}
	}
	if sh := u.Short(); sh.Len > 0 && (u.Params.Len > 0 || u.Headers.Len > 0) && !dangling {
		t := u
		t.Truncate()
		want := append([]byte(nil), sh.Get(cur)...)
		np := (pos + 7) % 60000
		if !t.AdjustOffs(sipsp.PField{Offs: sipsp.OffsT(np), Len: sh.Len}) {
			return fmt.Sprintf("%s URI %q: after Truncate() the relocation into a span of Short().Len=%d bytes was refused", what, txt, sh.Len)
		}
		nb := make([]byte, np+int(sh.Len))
		copy(nb[np:], want)
		if l := t.Long(); int(l.Offs)+int(l.Len) > len(nb) || !bytes.Equal(l.Get(nb), want) {
			return fmt.Sprintf("%s URI %q: truncated and relocated to %d it denotes %v instead of %q", what, txt, np, l, want)
		}
	}
	return ""
}
