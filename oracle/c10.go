package oracle

import (
	"fmt"
	"math/big"
	"strings"

	"github.com/intuitivelabs/sipsp"

	"verif/sut"
)

var (
	big2p32 = new(big.Int).Lsh(big.NewInt(1), 32)
	big2p24 = new(big.Int).Lsh(big.NewInt(1), 24)
	bigMaxU = new(big.Int).Sub(big2p32, big.NewInt(1))
)

func allDigits(b []byte) bool {
	if len(b) == 0 {
		return false
	}
	for _, c := range b {
		if c < '0' || c > '9' {
			return false
		}
	}
	return true
}

func bigOf(b []byte) *big.Int {
	v, _ := new(big.Int).SetString(string(b), 10)
	return v
}

func checkCSeq(c *sipsp.PCSeqBody, buf []byte) string {
	t := c.CSeq.Get(buf)
	if !allDigits(t) {
		return fmt.Sprintf("accepted CSeq number text %q is not a digit string", t)
	}
	v := bigOf(t)
	if v.Cmp(big2p32) >= 0 {
		return fmt.Sprintf("CSeq %q does not fit 32 bits but was accepted (reported %d)", t, c.CSeqNo)
	}
	if v.Cmp(new(big.Int).SetUint64(uint64(c.CSeqNo))) != 0 {
		return fmt.Sprintf("CSeqNo=%d but the digits are %q", c.CSeqNo, t)
	}
	return ""
}

func checkUInt(what string, u *sipsp.PUIntBody, buf []byte, limit *big.Int, maxDigits int) string {
	t := u.SVal.Get(buf)
	if !allDigits(t) {
		return fmt.Sprintf("accepted %s text %q is not a digit string", what, t)
	}
	v := bigOf(t)
	if v.Cmp(limit) > 0 {
		return fmt.Sprintf("%s %q exceeds the documented range but was accepted (reported %d)", what, t, u.UIVal)
	}
	if maxDigits > 0 && len(t) > maxDigits {
		return fmt.Sprintf("%s %q has more than %d digits but was accepted (reported %d)", what, t, maxDigits, u.UIVal)
	}
	if v.Cmp(new(big.Int).SetUint64(uint64(u.UIVal))) != 0 {
		return fmt.Sprintf("%s UIVal=%d but the digits are %q", what, u.UIVal, t)
	}
	return ""
}

// hparam is one header parameter found by an independent scan of the
// parameter span (split at ';' outside quotes, name '=' value, LWS trimmed).
type hparam struct{ name, val string }

func trimLWS(s string) string { return strings.Trim(s, " \t\r\n") }

// scanParams splits a parameter span. Quotes are quoting only inside a value
// (after '='); the second result is false when the text is ambiguous for an
// independent reader - a quote or backslash in a name position, or an
// unterminated quoted string - in which case nothing is asserted about it.
func scanParams(p []byte) ([]hparam, bool) {
	var out []hparam
	i := 0
	n := len(p)
	for i < n {
		// name: up to '=' or ';'
		st := i
		for i < n && p[i] != '=' && p[i] != ';' {
			if p[i] == '"' || p[i] == '\\' || p[i] == ',' {
				// (a comma in a name position: the library skips it in some states of a
				// single-value header and keeps it in others - not something a digit-string
				// property speaks about)
				return nil, false
			}
			i++
		}
		name := trimLWS(string(p[st:i]))
		if i >= n || p[i] == ';' {
			if name != "" {
				out = append(out, hparam{name, ""})
			}
			i++
			continue
		}
		i++ // '='
		vs := i
		inq := false
		for i < n {
			c := p[i]
			if inq {
				if c == '\\' {
					i++
				} else if c == '"' {
					inq = false
				}
			} else if c == '"' {
				inq = true
			} else if c == ';' {
				break
			} else if c == '=' {
				return nil, false
			}
			i++
		}
		if inq || i > n {
			return nil, false
		}
		out = append(out, hparam{name, trimLWS(string(p[vs:i]))})
		i++ // ';'
	}
	return out, true
}

// checkNAParams: expires / q of one name-addr value against the digits in its
// parameter span. Only unambiguous cases are asserted: the parameter occurs
// exactly once and its value is a digit string (expires) or digits[.digits]
// (q) - the property quantifies over digit strings.
func checkNAParams(what string, f *sipsp.PFromBody, buf []byte) string {
	if f.Params.Len == 0 {
		return ""
	}
	ps, ok := scanParams(f.Params.Get(buf))
	if !ok {
		return ""
	}
	var exp, q []string
	for _, p := range ps {
		switch strings.ToLower(p.name) {
		case "expires":
			exp = append(exp, p.val)
		case "q":
			q = append(q, p.val)
		}
	}
	// no such parameter at all: nothing may be reported for it
	if len(q) == 0 && f.Q != 0 {
		return fmt.Sprintf("%s has no q parameter but Q=%d is reported (parameters %q)", what, f.Q, f.Params.Get(buf))
	}
	if len(exp) == 0 && (f.HasExpires || f.Expires != 0) {
		return fmt.Sprintf("%s has no expires parameter but HasExpires=%v Expires=%d (parameters %q)", what, f.HasExpires, f.Expires, f.Params.Get(buf))
	}
	if len(exp) == 1 && allDigits([]byte(exp[0])) {
		v := bigOf([]byte(exp[0]))
		want := v
		if v.Cmp(bigMaxU) > 0 {
			want = bigMaxU // documented saturation
		}
		if !f.HasExpires {
			return fmt.Sprintf("%s has expires=%s but HasExpires is false", what, exp[0])
		}
		if want.Cmp(new(big.Int).SetUint64(uint64(f.Expires))) != 0 {
			return fmt.Sprintf("%s expires=%s reported as %d (expected %s)", what, exp[0], f.Expires, want.String())
		}
	}
	if len(exp) == 1 && !allDigits([]byte(exp[0])) && !strings.ContainsAny(exp[0], "\"\\ \t\r\n") && exp[0] != "" && f.Expires != 0 {
		// text that is no number at all cannot yield a number (a leading digit run is a truncated one)
		return fmt.Sprintf("%s expires=%s is not a number but Expires=%d is reported", what, exp[0], f.Expires)
	}
	if len(q) == 1 {
		s := q[0]
		ip, fp := s, ""
		hasDot := false
		if i := strings.IndexByte(s, '.'); i >= 0 {
			ip, fp, hasDot = s[:i], s[i+1:], true
		}
		// a q value that is no number at all (a sign, a letter, two dots ...) cannot yield a q: the
		// forms ".5" / "5." with an empty part are left alone
		numeric := func(x string) bool { return x == "" || allDigits([]byte(x)) }
		if !strings.ContainsAny(s, "\"\\ \t\r\n") && (!numeric(ip) || !numeric(fp)) && f.Q != 0 {
			return fmt.Sprintf("%s q=%s is not a number but Q=%d is reported", what, s, f.Q)
		}
		if allDigits([]byte(ip)) && (!hasDot || fp == "" || allDigits([]byte(fp))) {
			iv := bigOf([]byte(ip))
			legal := len(fp) <= 3
			var want uint64
			if legal {
				fv := uint64(0)
				for i := 0; i < 3; i++ {
					fv *= 10
					if i < len(fp) {
						fv += uint64(fp[i] - '0')
					}
				}
				switch {
				case iv.Sign() == 0:
					want = fv
				case iv.Cmp(big.NewInt(1)) == 0 && fv == 0:
					want = 1000
				default:
					legal = false
				}
			}
			if legal {
				if uint64(f.Q) != want {
					return fmt.Sprintf("%s q=%s reported as Q=%d (expected %d)", what, s, f.Q, want)
				}
			} else {
				if f.Q != 0 || f.ParamErr == 0 {
					return fmt.Sprintf("%s q=%s is outside [0,1]/3 decimals but Q=%d ParamErr=%d (expected unset and flagged)", what, s, f.Q, f.ParamErr)
				}
			}
		}
	}
	return ""
}

func checkURIPort(what string, uri []byte) string {
	if len(uri) == 0 {
		return ""
	}
	var pu sipsp.PsipURI
	var e sipsp.ErrorURI
	func() {
		defer func() { recover() }() // crashes of ParseURI are C04's business (direct-call tasks)
		e, _ = sipsp.ParseURI(uri, &pu)
	}()
	if e == 0 && pu.Port.Len == 0 && pu.PortNo != 0 {
		// a number that points to no digit string at all
		return fmt.Sprintf("%s URI %q reports PortNo=%d but no port text", what, uri, pu.PortNo)
	}
	if e != 0 || pu.Port.Len == 0 {
		return ""
	}
	if fend(pu.Port) > len(uri) {
		return ""
	}
	t := pu.Port.Get(uri)
	if !allDigits(t) {
		return fmt.Sprintf("%s URI %q accepted with non-numeric port %q", what, uri, t)
	}
	v := bigOf(t)
	if v.Cmp(big.NewInt(65535)) > 0 {
		return fmt.Sprintf("%s URI %q accepted with port %q > 65535 (PortNo=%d)", what, uri, t, pu.PortNo)
	}
	if v.Cmp(big.NewInt(int64(pu.PortNo))) != 0 {
		return fmt.Sprintf("%s URI %q PortNo=%d but the digits are %q", what, uri, pu.PortNo, t)
	}
	return ""
}

// C10Msg: every number reported by an accepted message equals the digits it
// points to and is inside the documented range.
func C10Msg(m *sipsp.PSIPMsg, buf []byte, err sipsp.ErrorHdr, params bool) string {
	if err != 0 {
		return ""
	}
	if !m.Request() {
		t := m.FL.StatusCode.Get(buf)
		if len(t) != 3 || !allDigits(t) {
			return fmt.Sprintf("reply accepted with status text %q", t)
		}
		if v := int(t[0]-'0')*100 + int(t[1]-'0')*10 + int(t[2]-'0'); v != int(m.FL.Status) {
			return fmt.Sprintf("Status=%d but the digits are %q", m.FL.Status, t)
		}
	} else if d := checkURIPort("request", m.FL.URI.Get(buf)); d != "" {
		return d
	}
	pv := &m.PV
	if pv.CSeq.Parsed() {
		if d := checkCSeq(&pv.CSeq, buf); d != "" {
			return d
		}
	}
	if pv.CLen.Parsed() {
		if d := checkUInt("Content-Length", &pv.CLen, buf, big2p24, 9); d != "" {
			return d
		}
	}
	if pv.Expires.Parsed() {
		if d := checkUInt("Expires", &pv.Expires, buf, bigMaxU, 0); d != "" {
			return d
		}
	}
	for _, x := range []struct {
		n string
		f *sipsp.PFromBody
	}{{"From", &pv.From}, {"To", &pv.To}} {
		if x.f.Parsed() {
			// (expires / q are Contact parameters: nothing is asserted about them on From / To)
			if d := checkURIPort(x.n, x.f.URI.Get(buf)); d != "" {
				return d
			}
		}
	}
	for i := 0; i < pv.Contacts.VNo() && i < len(pv.Contacts.Vals); i++ {
		v := &pv.Contacts.Vals[i]
		if params {
			if d := checkNAParams(fmt.Sprintf("Contacts.Vals[%d]", i), v, buf); d != "" {
				return d
			}
		}
		if !v.Star {
			if d := checkURIPort(fmt.Sprintf("Contacts.Vals[%d]", i), v.URI.Get(buf)); d != "" {
				return d
			}
		}
	}
	for i := 0; i < pv.PAIs.VNo() && i < len(pv.PAIs.Vals); i++ {
		if d := checkURIPort(fmt.Sprintf("PAIs.Vals[%d]", i), pv.PAIs.Vals[i].URI.Get(buf)); d != "" {
			return d
		}
	}
	return ""
}

// C10Sub: same for the stand-alone drivers of the numeric sub-parsers.
func C10Sub(cfg sut.Cfg, d sut.Driver, buf []byte, err sipsp.ErrorHdr, params bool) string {
	switch x := d.(type) {
	case *sut.CSeqD:
		if err == 0 {
			return checkCSeq(&x.C, buf)
		}
	case *sut.UIntD:
		if err == 0 {
			if x.Kind == "clen" {
				return checkUInt("Content-Length", &x.C, buf, big2p24, 9)
			}
			return checkUInt(x.Kind, &x.C, buf, bigMaxU, 0)
		}
	case *sut.NameAddrD:
		if err == 0 || err == sipsp.ErrHdrMoreValues {
			if params && (cfg.Kind == "onecontact" || (cfg.Kind == "nameaddr" && sipsp.HdrT(cfg.HType) == sipsp.HdrContact)) {
				if s := checkNAParams("value", &x.F, buf); s != "" {
					return s
				}
			}
			if !x.F.Star {
				return checkURIPort("value", x.F.URI.Get(buf))
			}
		}
	case *sut.FLineD:
		if err == 0 && !x.FL.Request() {
			t := x.FL.StatusCode.Get(buf)
			if len(t) != 3 || !allDigits(t) {
				return fmt.Sprintf("reply accepted with status text %q", t)
			}
			if v := int(t[0]-'0')*100 + int(t[1]-'0')*10 + int(t[2]-'0'); v != int(x.FL.Status) {
				return fmt.Sprintf("Status=%d but the digits are %q", x.FL.Status, t)
			}
		}
	}
	return ""
}

// C10Summary: the expires summary accessor reports a number too; at every call (also while
// suspended or after a rejection) it must be what the values it summarises say: available only when
// a Contact value or an Expires header has been parsed, and then the larger of the two.
func C10Summary(pv *sipsp.PHdrVals) string {
	// the maximum over the contact values is a number the library reports as well: it is never
	// smaller than the expires of a value it stored, and equal to their maximum when none was dropped
	if c := &pv.Contacts; c.N > 0 {
		var smax uint32
		for i := 0; i < c.VNo(); i++ {
			if e := c.Vals[i].Expires; e > smax {
				smax = e
			}
		}
		if c.MaxExpires < smax {
			return fmt.Sprintf("Contacts.MaxExpires=%d is smaller than the expires %d of a stored value (N=%d)", c.MaxExpires, smax, c.N)
		}
		if !c.More() && c.VNo() == c.N && c.MaxExpires != smax {
			return fmt.Sprintf("Contacts.MaxExpires=%d but the largest expires among all %d values is %d", c.MaxExpires, c.N, smax)
		}
		for i := 0; i < c.VNo(); i++ {
			if c.Vals[i].HasExpires && c.Vals[i].Expires < c.MinExpires {
				return fmt.Sprintf("Contacts.MinExpires=%d is larger than expires=%d of stored value %d", c.MinExpires, c.Vals[i].Expires, i)
			}
		}
	}
	mx, ok := pv.MaxExpires()
	var want uint32
	wok := false
	if pv.Contacts.Parsed() {
		want, wok = pv.Contacts.MaxExpires, true
	}
	if pv.Expires.Parsed() {
		if !wok || pv.Expires.UIVal > want {
			want = pv.Expires.UIVal
		}
		wok = true
	}
	if ok != wok || (ok && mx != want) {
		return fmt.Sprintf("MaxExpires() = (%d,%v) but the parsed values give (%d,%v) [Contacts.Parsed=%v MaxExpires=%d, Expires.Parsed=%v UIVal=%d]",
			mx, ok, want, wok, pv.Contacts.Parsed(), pv.Contacts.MaxExpires, pv.Expires.Parsed(), pv.Expires.UIVal)
	}
	return ""
}
