package oracle

import (
	"fmt"
	"math/big"

	"github.com/intuitivelabs/sipsp"

	"verif/gen"
	"verif/sut"
)

// Framing reference model (C06), written from the doc comments of
// ParseSIPMsg and the SIPMsg*F flags, on the sender's ground truth: it never
// looks at the received bytes, only at what the sender knows it wrote
// (header block length, declared Content-Length) and at how many bytes of
// that have reached the receiver.

// Pred is what the model says one call must return.
type Pred struct {
	Errs    []sipsp.ErrorHdr // acceptable verdicts (one entry unless the model is deliberately imprecise)
	AnyErr  bool             // any failure verdict is acceptable too (the property fixes "rejected", not the error code)
	Ret     int              // expected returned offset relative to the message start (-1: not predicted)
	BodyLen int              // expected body length on success (-1: not predicted)
	Why     string
}

const (
	fSkipBody = 1
	fCLenReq  = 2
)

// Predict: the message `spec` starts at the beginning of `avail` available
// bytes (its own bytes first, then whatever the peer sent after it).
func Predict(spec *gen.MsgSpec, flags uint, noMore bool, avail int) Pred {
	if len(spec.Hdrs) == 0 {
		// C06 quantifies over well-formed header blocks; a message without any header line is not one
		return Pred{Ret: -1, BodyLen: -1, Why: "model: no header line, no prediction"}
	}
	h := spec.HdrEnd()
	need := h
	if spec.Blank == "\r" && !(noMore && avail == h) {
		// a lone CR is an empty line only once the next byte is known not to be LF - or once the
		// receiver says that no more data will come: then the same message, which is accepted when
		// another one follows it, is complete on its own as well
		need++
	}
	clIdx := spec.FirstOf("content-length")
	hasCL := clIdx >= 0
	var n int
	huge := false
	if hasCL {
		t := spec.Hdrs[clIdx].Val
		v, ok := new(big.Int).SetString(t, 10)
		for i := 0; i < len(t); i++ {
			if t[i] < '0' || t[i] > '9' {
				ok = false
			}
		}
		if !ok || t == "" {
			return Pred{Ret: -1, BodyLen: -1, Why: "model: non-numeric Content-Length, no prediction"}
		}
		if len(t) > 9 || v.Cmp(big.NewInt(1<<24)) > 0 {
			huge = true
		} else {
			n = int(v.Int64())
		}
	}
	if noMore && spec.Blank == "\r\n" && avail == h-1 {
		// the input ends between the CR and the LF of the blank line and no more data will come:
		// the receiver sees a header block that ends in a bare CR, which the library reads as a
		// complete empty line; the sender meant a truncated one. No prediction.
		return Pred{Ret: -1, BodyLen: -1, Why: "model: input ends inside the blank CRLF in no-more-data mode, no prediction"}
	}
	if avail < need {
		p := Pred{Ret: -1, BodyLen: -1, Why: fmt.Sprintf("header block incomplete (%d of %d bytes)", avail, need)}
		if noMore {
			// end of input inside the header block: a failure, whatever its code
			p.Errs = []sipsp.ErrorHdr{sipsp.ErrHdrTrunc}
			p.AnyErr = true
		} else {
			p.Errs = []sipsp.ErrorHdr{sipsp.ErrHdrMoreBytes}
		}
		if huge {
			p.AnyErr = true // the out-of-range Content-Length may already have been seen
		}
		return p
	}
	if huge {
		return Pred{Errs: []sipsp.ErrorHdr{sipsp.ErrHdrNumTooBig}, AnyErr: true, Ret: -1, BodyLen: -1, Why: "declared Content-Length outside the documented range: must be rejected"}
	}
	have := avail - h
	if flags&fSkipBody != 0 {
		if flags&fCLenReq != 0 && !hasCL {
			return Pred{Errs: []sipsp.ErrorHdr{sipsp.ErrHdrNoCLen}, Ret: h, BodyLen: -1, Why: "skip-body + require-CL, no Content-Length"}
		}
		return Pred{Errs: []sipsp.ErrorHdr{sipsp.ErrHdrOk}, Ret: h, BodyLen: 0, Why: "skip-body: body start"}
	}
	if hasCL {
		if have >= n {
			return Pred{Errs: []sipsp.ErrorHdr{sipsp.ErrHdrOk}, Ret: h + n, BodyLen: n, Why: fmt.Sprintf("Content-Length %d, %d body bytes available", n, have)}
		}
		if noMore {
			return Pred{Errs: []sipsp.ErrorHdr{sipsp.ErrHdrOk}, Ret: avail, BodyLen: have, Why: fmt.Sprintf("Content-Length %d, only %d available, no-more-data: truncated body", n, have)}
		}
		return Pred{Errs: []sipsp.ErrorHdr{sipsp.ErrHdrMoreBytes}, Ret: -1, BodyLen: -1, Why: fmt.Sprintf("Content-Length %d, only %d body bytes available", n, have)}
	}
	if flags&fCLenReq != 0 {
		return Pred{Errs: []sipsp.ErrorHdr{sipsp.ErrHdrOk}, Ret: h, BodyLen: 0, Why: "require-CL without Content-Length: empty body"}
	}
	return Pred{Errs: []sipsp.ErrorHdr{sipsp.ErrHdrOk}, Ret: avail, BodyLen: have, Why: "no Content-Length: body is the rest of the buffer"}
}

// C06Call compares one receiver call with the model.
func C06Call(spec *gen.MsgSpec, cfg sut.Cfg, m *sipsp.PSIPMsg, buf []byte, start, ret int, err sipsp.ErrorHdr, eofCall bool) string {
	noMore := eofCall && cfg.EOFFlag
	avail := len(buf) - start
	// the object's own account of the verdict ("Parsed returns true if the message is fully parsed
	// and no more input is needed"): a message is reported complete exactly when the call said so -
	// in particular a missing Content-Length "reported as such" is not a parsed message
	if m.Parsed() != (err == sipsp.ErrHdrOk) {
		return fmt.Sprintf("flags=%d noMore=%v: the parser returned (%d,%d %q) but Parsed() = %v", cfg.Flags, noMore, ret, err, err, m.Parsed())
	}
	p := Predict(spec, cfg.Flags, noMore, avail)
	if len(p.Errs) == 0 {
		return ""
	}
	okv := false
	for _, e := range p.Errs {
		if e == err {
			okv = true
		}
	}
	if p.AnyErr && sut.IsError(err) && err != sipsp.ErrHdrNoCLen {
		okv = true
	}
	if !okv {
		return fmt.Sprintf("flags=%d noMore=%v, %d bytes available from message start: model expects verdict %v (%s) but the parser returned (%d,%d %q)",
			cfg.Flags, noMore, avail, p.Errs, p.Why, ret, err, err)
	}
	if err == sipsp.ErrHdrMoreBytes || (sut.IsError(err) && err != sipsp.ErrHdrNoCLen) {
		return ""
	}
	if p.Ret >= 0 && ret != start+p.Ret {
		return fmt.Sprintf("flags=%d noMore=%v: model expects offset %d+%d (%s) but the parser returned (%d,%d %q)", cfg.Flags, noMore, start, p.Ret, p.Why, ret, err, err)
	}
	if err == 0 && p.BodyLen >= 0 {
		if int(m.Body.Len) != p.BodyLen {
			return fmt.Sprintf("flags=%d noMore=%v: model expects a body of %d bytes (%s) but Body={%d,%d}", cfg.Flags, noMore, p.BodyLen, p.Why, m.Body.Offs, m.Body.Len)
		}
		if p.BodyLen > 0 && int(m.Body.Offs) != start+spec.HdrEnd() {
			return fmt.Sprintf("body starts at %d, the sender's header block ends at %d+%d", m.Body.Offs, start, spec.HdrEnd())
		}
	}
	return ""
}

// C06Alone: a message accepted in place (behind earlier messages, followed by
// later ones) must equal the same message parsed alone, when its extent does
// not depend on what follows.
func C06Alone(spec *gen.MsgSpec, cfg sut.Cfg, recv *sut.MsgD, buf []byte, start, ret int, eofCall bool) string {
	clIdx := spec.FirstOf("content-length")
	if cfg.Flags&(fSkipBody|fCLenReq) == 0 && clIdx < 0 {
		return "" // body = rest of buffer: depends on what follows by definition
	}
	if ret-start > spec.Len() {
		return "" // lying peer: declared length reaches into the next message
	}
	if cfg.Flags&fSkipBody == 0 && clIdx >= 0 {
		if v, ok := new(big.Int).SetString(spec.Hdrs[clIdx].Val, 10); !ok || int64(ret-start) != int64(spec.HdrEnd())+v.Int64() {
			return "" // truncated body accepted in no-more-data mode: not a complete message
		}
	}
	alone := append([]byte(nil), buf[start:ret]...)
	a := sut.New(cfg).(*sut.MsgD)
	var aret int
	var aerr sipsp.ErrorHdr
	pan := ""
	func() {
		defer func() {
			if r := recover(); r != nil {
				pan = fmt.Sprint(r)
			}
		}()
		// (a message accepted by the call made at the end of input, up to the last byte, is parsed
		// alone with the end-of-input flag as well: its last byte may be a bare CR that only
		// "no more data" turns into a complete empty line)
		aret, aerr = a.Call(alone, 0, eofCall && ret == len(buf))
	}()
	if pan != "" {
		return "parsing the message alone panicked: " + pan
	}
	if aerr != 0 || aret != ret-start {
		// lone-CR blank line + empty body needs a look-ahead byte that "alone" does not have
		if spec.Blank == "\r" && aerr == sipsp.ErrHdrMoreBytes && ret-start == spec.HdrEnd() {
			return ""
		}
		return fmt.Sprintf("in place (start %d) accepted with offset %d, alone = (%d,%d %q)", start, ret, aret, aerr, aerr)
	}
	var ra, rb sut.Rec
	ra.MaskBuf, rb.MaskBuf = true, true
	ra.Reset(start, len(buf))
	rb.Reset(0, len(alone))
	recv.Snap(&ra, buf)
	a.Snap(&rb, alone)
	if !sut.EqualV(ra.V, rb.V) {
		ra.Verbose, rb.Verbose = true, true
		ra.Reset(start, len(buf))
		rb.Reset(0, len(alone))
		recv.Snap(&ra, buf)
		a.Snap(&rb, alone)
		d := sut.Diff(&ra, &rb, 6)
		return fmt.Sprintf("message parsed in place at %d differs from the same message parsed alone: %v", start, d)
	}
	return ""
}

// C06History: the emitted units of a connection are contiguous, in order.
func C06History(results []UnitResult) string {
	for i := 1; i < len(results); i++ {
		a, b := results[i-1], results[i]
		if !a.Definitive {
			return fmt.Sprintf("unit %d follows unfinished unit %d", b.Unit, a.Unit)
		}
		if b.StreamStart != a.StreamStart+(a.Ret-a.Start) {
			return fmt.Sprintf("unit %d starts at stream offset %d but unit %d ended at %d", b.Unit, b.StreamStart, a.Unit, a.StreamStart+(a.Ret-a.Start))
		}
	}
	return ""
}
