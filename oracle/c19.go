package oracle

import (
	"fmt"
	"strings"

	"github.com/intuitivelabs/sipsp"

	"verif/gen"
	"verif/sut"
)

// SigObs is the signature observed for one accepted message.
type SigObs struct {
	Sig     sipsp.MsgSig
	Err     sipsp.ErrorHdr
	Str     string
	Request bool
	HdrN    int // headers in the message
	Cap     int // headers the receiver's array can store
	Conn    int
	Variant string
	Spec    *gen.MsgSpec
	Panic   string
}

func TakeSig(m *sipsp.PSIPMsg, cfg sut.Cfg) *SigObs {
	o := &SigObs{Request: m.Request(), HdrN: m.HL.N, Cap: len(m.HL.Hdrs)}
	func() {
		defer func() {
			if r := recover(); r != nil {
				o.Panic = fmt.Sprint(r)
			}
		}()
		o.Sig, o.Err = sipsp.GetMsgSig(m)
		o.Str = o.Sig.String()
	}()
	return o
}

// wellFormedSig: hex digits with upper-case section letters, starting with a hex digit (the method),
// no 'E' (the rendering's own error marker). The exact section letters and widths are the library's.
func wellFormedSig(s string) bool {
	if len(s) < 2 || !((s[0] >= '0' && s[0] <= '9') || (s[0] >= 'a' && s[0] <= 'f')) {
		return false
	}
	sections := 0
	for i := 0; i < len(s); i++ {
		c := s[i]
		switch {
		case (c >= '0' && c <= '9') || (c >= 'a' && c <= 'f'):
		case c >= 'A' && c <= 'Z' && c != 'E':
			sections++
		default:
			return false
		}
	}
	return sections >= 1
}

// documented fingerprinted headers, in the documented id order
var sigKinds = []string{"call-id", "contact", "cseq", "from", "max-forwards", "to", "via", "user-agent"}

// the library's header types for the documented fingerprinted kinds (exported constants)
var sigTypes = []sipsp.HdrT{sipsp.HdrCallID, sipsp.HdrContact, sipsp.HdrCSeq, sipsp.HdrFrom, sipsp.HdrMaxFwd, sipsp.HdrTo, sipsp.HdrVia, sipsp.HdrUA}

// sigID: the numeric id the library's exported GetHdrSigId() gives the LONG form of kind k (asked
// with a 5-byte name, so no notion of "compact" can interfere). The numbering itself is the
// library's business; which header gets an entry, in which order, and when the compact bit is set
// is the model's.
func sigID(k int) int {
	id, err := sipsp.GetHdrSigId(sipsp.Hdr{Type: sigTypes[k], Name: sipsp.PField{Offs: 0, Len: 5}})
	if err != sipsp.ErrHdrOk {
		return 0xff
	}
	return int(id)
}

func sigKindIdx(k string) int {
	for i, s := range sigKinds {
		if s == k {
			return i
		}
	}
	return -1
}

// modelHdrSig: the sender-side model of the header-order part: first
// occurrence of each fingerprinted type, in message order, compact bit from a
// one-letter name, Contact only for INVITE; only the first `cap` headers are
// visible to the receiver. It returns the ids and whether every fingerprinted
// header present in the message was visible.
func modelHdrSig(spec *gen.MsgSpec, cap int) ([]int, bool) {
	invite := spec.Method() == "INVITE"
	seenAll := map[string]bool{}
	for _, h := range spec.Hdrs {
		if sigKindIdx(h.Kind) >= 0 {
			seenAll[h.Kind] = true
		}
	}
	seen := map[string]bool{}
	var ids []int
	for i, h := range spec.Hdrs {
		if i >= cap {
			break
		}
		k := sigKindIdx(h.Kind)
		if h.Kind == "" || seen[h.Kind] {
			continue
		}
		seen[h.Kind] = true
		if k < 0 {
			continue
		}
		if h.Kind == "contact" && !invite {
			continue
		}
		id := sigID(k)
		if len(h.Name) == 1 {
			id |= int(sipsp.HdrSigIdCMask)
		}
		ids = append(ids, id)
		if len(ids) >= 8 {
			return ids, true
		}
	}
	complete := true
	for k := range seenAll {
		if !seen[k] {
			complete = false
		}
	}
	return ids, complete
}

// C19Group checks the relations between the signatures of one group of
// variants of the same request. It returns the description and the index of
// the connection to blame.
func C19Group(obs []SigObs) (string, int) {
	var ref *SigObs
	for i := range obs {
		o := &obs[i]
		if o.Panic != "" {
			return "GetMsgSig/String panicked: " + o.Panic, o.Conn
		}
		// the sender knows whether it wrote a status line (version in any letter case)
		if o.Spec != nil && !o.Spec.IsRequest() && o.Err != sipsp.ErrHdrEmpty {
			return fmt.Sprintf("the peer sent a reply (%q) but it yields signature %q, verdict %d %q, instead of the no-signature indication", o.Spec.FLine, o.Str, o.Err, o.Err), o.Conn
		}
		if !o.Request {
			if o.Err != sipsp.ErrHdrEmpty {
				return fmt.Sprintf("reply yields signature verdict %d %q instead of the no-signature indication", o.Err, o.Err), o.Conn
			}
			continue
		}
		if o.Sig.HdrSigLen < 0 || o.Sig.HdrSigLen > 8 {
			return fmt.Sprintf("HdrSigLen=%d", o.Sig.HdrSigLen), o.Conn
		}
		if o.Str != "" && !wellFormedSig(o.Str) {
			return fmt.Sprintf("signature text %q is not well formed", o.Str), o.Conn
		}
		if o.Str == "" {
			return fmt.Sprintf("request with method %d has an empty signature text", o.Sig.Method), o.Conn
		}
		if o.Err != sipsp.ErrHdrOk && o.Err != sipsp.ErrHdrTrunc {
			return fmt.Sprintf("request yields signature verdict %d %q", o.Err, o.Err), o.Conn
		}
		fits := o.Cap >= o.HdrN
		if fits && o.Err != sipsp.ErrHdrOk {
			return fmt.Sprintf("all %d headers fit the array of %d but the signature verdict is %d %q", o.HdrN, o.Cap, o.Err, o.Err), o.Conn
		}
		// header-order part against the sender-side model
		if o.Spec != nil {
			want, complete := modelHdrSig(o.Spec, o.Cap)
			got := make([]int, o.Sig.HdrSigLen)
			for k := range got {
				got[k] = int(o.Sig.HdrSig[k])
			}
			if fmt.Sprint(want) != fmt.Sprint(got) && (fits || o.Err != sipsp.ErrHdrTrunc) {
				return fmt.Sprintf("header-order part %v, sender-side model says %v (method %s, cap %d, %d headers: %s)", got, want, o.Spec.Method(), o.Cap, o.HdrN, hdrNames(o.Spec)), o.Conn
			}
			if !fits && !complete && o.Err != sipsp.ErrHdrTrunc && len(want) < 8 {
				return fmt.Sprintf("array of %d cannot hold the %d headers, fingerprinted headers were dropped, but no truncated indication (verdict %d)", o.Cap, o.HdrN, o.Err), o.Conn
			}
		}
		if fits {
			if ref == nil {
				ref = o
				continue
			}
			if strings.Contains(o.Variant, "permute") || strings.Contains(ref.Variant, "permute") {
				// header lines were reordered: only the order part may differ
				if o.Sig.Method != ref.Sig.Method || o.Sig.CidSLen != ref.Sig.CidSLen || o.Sig.CidSig != ref.Sig.CidSig ||
					o.Sig.FromSig != ref.Sig.FromSig || o.Sig.ViaBSig != ref.Sig.ViaBSig {
					return fmt.Sprintf("variant %q (conn %d) signature %q: method / Call-ID / From-tag / Via-branch parts differ from variant %q (conn %d) signature %q although only the order of header lines changed", o.Variant, o.Conn, o.Str, ref.Variant, ref.Conn, ref.Str), o.Conn
				}
				continue
			}
			if o.Sig != ref.Sig || o.Str != ref.Str {
				return fmt.Sprintf("variant %q (conn %d) signature %q differs from variant %q (conn %d) signature %q", o.Variant, o.Conn, o.Str, ref.Variant, ref.Conn, ref.Str), o.Conn
			}
		}
	}
	if ref != nil {
		for i := range obs {
			o := &obs[i]
			if !o.Request || o.Cap >= o.HdrN {
				continue
			}
			if strings.Contains(o.Variant, "permute") || strings.Contains(ref.Variant, "permute") {
				continue
			}
			if !(o.Sig == ref.Sig && o.Err == sipsp.ErrHdrOk) && o.Err != sipsp.ErrHdrTrunc {
				return fmt.Sprintf("variant %q with an array of %d for %d headers: signature %q differs from %q and there is no truncated indication", o.Variant, o.Cap, o.HdrN, o.Str, ref.Str), o.Conn
			}
		}
	}
	return "", 0
}

func hdrNames(m *gen.MsgSpec) string {
	var n []string
	for _, h := range m.Hdrs {
		n = append(n, h.Name)
	}
	return strings.Join(n, ",")
}
